HOOK_COMMITS = []
NOTES = ("All checks are bounded: every claim holds for all inputs inside the stated bounds (evidence/<id>.json: coverage.bounds) and says nothing "
         "outside them. Known findings are listed in known_findings.json; see DESIGN.md.")

CLAIMS = {
    "C10": {
        "text": "Bounded symbolic execution of the real server encoder (sourceTracer.TransitionEnd snapshot, calcUpdate, genDeepUpdate, genShallowUpdate, "
                "calcUpdateMutations, Checksum, calcTrackedStates) against the real client decoder (clockFromUpdate) and the checksum test: for every "
                "state count 1..4 (thorough 1..6), every tracked subset, both index spaces, all 64-bit previous clocks and every delta the wire format can "
                "represent, the round trip is exact and accepted, a drifted mirror is rejected, and chains of per-mutation updates compose. z3 decides each "
                "obligation for all values at once; the four ways in which the tree breaks the property (three truncating wire fields, shallow checksum) are "
                "known findings that are re-confirmed by native replay on every run.",
        "note": "Assumes: snapshots produced by the real TransitionEnd from a stub am.Api source; mirror = first snapshot in client index space; go statement "
                "(pushClient) dropped; the 4-line checksum comparison of Client.clockUpdate is restated in the harness. Trusted: go/ssa, the symgo interpreter "
                "(validated against the native build on concrete inputs each run), z3.",
        "design_ref": "DESIGN.md section 4 (C10)",
    },
}

TECH_FORK = ("path-by-path symbolic execution of the real Go code (go/ssa) with z3 deciding branch feasibility and assertions; "
             "counterexamples replayed natively")
MK_NOTE = ("Assumes: real New(); pre-state injected under the property's invariant and required to be reachable by public mutations at replay; handler "
           "goroutine served inline (fault-free protocol sequentialised), timers never fire, go statements dropped, randId constant. Trusted: go/ssa, "
           "the symgo interpreter (validated against the native build each run), z3.")
CLAIMS.update({
    "C01": {"text": "Every path of one mutation (Add/Remove/Set, CanAdd/CanRemove) through the real queueMutation/processQueue/newTransition/emitEvents/"
                    "setActiveStates on a machine with any 2-state schema (and curated 3-state ones), any consistent pre-state and symbolic ticks is executed "
                    "symbolically: parity = activity, all reader views agree, ticks move by exactly +1/+2/0 as documented, canceled and check transitions move "
                    "nothing, the transition's before/after times are the machine's.",
            "note": MK_NOTE + " Interleavings with concurrent readers are not explored.", "technique": TECH_FORK, "design_ref": "DESIGN.md section 4 (C01)"},
    "C02": {"text": "One inductive step of the real resolver (Schema.Parse, TargetStates, parseAdd/parseRequire/stateBlockedBy, setupAccepted) through the public "
                    "mutation API for every 2-state schema (all relation bits symbolic), curated 3-state schemas and, in the thorough tier, 128 shards of the "
                    "3-state schema space: Require closure, no Remove conflict, Add relations honoured, every change justified. Two genuine resolver defects "
                    "are known findings that are re-confirmed natively each run.",
            "note": MK_NOTE + " graph.TopologicalSort stubbed (order is C05's subject).", "technique": TECH_FORK, "design_ref": "DESIGN.md section 4 (C02)"},
    "C03": {"text": "All-or-nothing and truthful Result for one mutation with the real handler dispatch (processHandlers, handle, emit*Events) and a symbolic veto "
                    "table over every handler name; CanAdd/CanRemove change nothing and predict the next result; disposed / over-limit / backing-off machines cancel "
                    "(Set ignoring Backoff was repaired, fix: 432354e).",
            "note": MK_NOTE, "technique": TECH_FORK, "design_ref": "DESIGN.md section 4 (C03)"},
    "C05": {"text": "Handler lifecycle on every path of one mutation with a recording map binding: phase order, negotiation handlers see the pre-state, final "
                    "handlers see the applied target, a veto stops everything, final handlers exactly once per change, Enter/Exit order honours After/Require.",
            "note": MK_NOTE + " Struct handlers found by reflection, several bindings and StatePrefix are outside the claim.", "technique": TECH_FORK,
            "design_ref": "DESIGN.md section 4 (C05)"},
    "C07": {"text": "Auto mutation after an accepted, state-changing mutation over every 2-state schema with Auto bits and every veto assignment: it follows "
                    "immediately, calls exactly the unblocked inactive Auto states, never chains, and every rejected Auto state is justified by its own handlers "
                    "or relations. The partial-acceptance panic in emitExitEvents was repaired (fix: 5ed50fb).",
            "note": MK_NOTE + " AnyEnter pinned to no veto; health mutations outside.", "technique": TECH_FORK, "design_ref": "DESIGN.md section 4 (C07)"},
    "C14": {"text": "Tracer protocol over one drain of the queue (mutation plus auto mutation) with a recording tracer executed symbolically: Init/Start/[Finals]/End "
                    "once and in order per processed mutation, Finals iff applied, reported times equal machine times and chain, canceled ones report no change, "
                    "QueueEnd once, MutationQueued once per processed mutation.",
            "note": MK_NOTE + " Single goroutine, one tracer.", "technique": TECH_FORK, "design_ref": "DESIGN.md section 4 (C14)"},
    "C20": {"text": "Totality and algebra of the exported helpers of pkg/machine executed path by path on symbolic arguments: S.Delete/Add/Add1/Sub/Shared/Equal/"
                    "EqualOrder/Has/Index round trip, SAdd, Time and TimeIndex algebra for every index, queue queries for every Position on queues of 0..2 mutations, "
                    "ParseStates, Event.Export/Clone without a machine, copying getters, every When* with nil and live contexts. Any reachable panic is a violation; "
                    "the genuine defects found this way (S.Delete, ParseStates, IsQueued, Event.Export, WhenQuery ctx, DetachHandlers, PoolFork) were repaired (fix commits in known_findings.json).",
            "note": "Assumes documented preconditions only. Of pkg/helpers only the Cant*/Ask* helpers are encoded (CantRemove/AskRemove answering the opposite was found and repaired); the wait "
                    "helpers and pkg/integrations are outside this revision's claim. Trusted: go/ssa, symgo, z3.",
            "technique": TECH_FORK, "design_ref": "DESIGN.md section 4 (C20)"},
    "C04": {"text": "A mutation (any kind, any called set) issued from inside any handler call of a running transition - alone, after a CanAdd1 check from the same handler, or "
                    "followed by an Eval whose context has already ended - is executed path by path through the real queueMutation/PrependMut/processQueue: never run nested, "
                    "gets the next queue tick, is processed after the current transition, queue empty and released when the outer call returns, WhenQueue(tick) closes once "
                    "the tick was processed, accepted or canceled (fix: 92435f9). Two goroutines: the second caller's Add/Remove/Set runs as one atomic "
                    "block at a symbolic statement boundary of the first caller's queueMutation/PrependMut/processQueue (source instrumented from the current tree; the "
                    "schedule is one symbolic boolean per point, z3 decides which are feasible; replayed natively by pausing the first goroutine at that statement): one "
                    "transition at a time, tick order, nothing stranded. The stranded-mutation window of processQueue was found this way and repaired (fix: cd7525f).",
            "note": MK_NOTE + " Schedules: 2 goroutines, one context switch into the second and back, only at statement boundaries of the three instrumented functions where "
                    "the first holds no mutex; finer-grained or longer interleavings are outside the claim.", "technique": TECH_FORK + "; the schedule point is a symbolic variable",
            "design_ref": "DESIGN.md A.6 / section 4 (C04)"},
    "C06": {"text": "No lost or spurious wake-ups for When, WhenNot, WhenTime, WhenTicks, WhenNextActive, WhenQuery, WhenQueue and NewStateCtx (incl. Multi re-activation) over two "
                    "mutations (plus auto mutations) with the subscription placed before the first transition, between its apply step and processSubscriptions (from a final "
                    "handler) or after it, with and without a cancelation context; two When/WhenNot subscriptions sharing one context on a 3-state machine; all paths of the "
                    "real Subscriptions code. A spurious close of multi-state When on a swap was repaired (fix: ee1f908).",
            "note": MK_NOTE + " The three subscription positions are reached from the transition's own goroutine; a racing subscriber goroutine is reduced to them by the "
                    "activeStatesMx critical sections (not explored as schedules).", "technique": TECH_FORK, "design_ref": "DESIGN.md section 4 (C06)"},
    "C08": {"text": "Fault kernel: a panic at any of the first six handler calls of one mutation - on a machine without an earlier fault, or with Exception still active from a "
                    "first fault (sequence of two) - is delivered the way handlerLoop's recover delivers it (on handlerPanic), so the real processHandlers, recoverToErr, "
                    "recoverFinalPhase and the prepended Exception mutation run: Exception (re)activated, parity = activity, negotiation faults leave ticks untouched and "
                    "cancel, final-phase faults roll back incomplete activations (End handlers: known finding), the machine accepts the next mutation.",
            "note": MK_NOTE + " Real panics, goroutine containment, timeouts/deadlines and longer fault sequences are outside the claim.", "technique": TECH_FORK,
            "design_ref": "DESIGN.md section 4 (C08)"},
    "C11": {"text": "Two executions of the same schema + pre-state + mutation with independently chosen iteration orders at the map ranges of NewAutoMutation, "
                    "TopologicalSort and ParseStates (one path per permutation, feasibility by z3) must agree on Result, machine time and handler sequence. The map-order "
                    "dependence of auto mutations found this way was repaired (fix: 8bdd145).",
            "note": MK_NOTE + " Natively a counterexample is confirmed by 48 re-executions.", "technique": TECH_FORK, "design_ref": "DESIGN.md section 4 (C11)"},
    "C13": {"text": "Dispose kernel: for every subset of outstanding waiters (When, WhenNot, WhenTime, WhenArgs, WhenQueue, WhenQuery, state context; shared ctx or none), "
                    "0..2 dispose handlers and a single or double DisposeForce, the real doDispose/Subscriptions.dispose release every waiter, run each handler once, close "
                    "WhenDisposed, and later Add/Remove/Set/CanAdd/When* calls return neutral values; the same with DisposeForce landing inside a running transition (from "
                    "the tracer hooks between its steps, from a negotiation handler, from a final handler).",
            "note": MK_NOTE + " Dispose() proper (forked, sleeping), handler-goroutine exit, concurrent dispose: outside the claim.", "technique": TECH_FORK,
            "design_ref": "DESIGN.md section 4 (C13)"},
    "C16": {"text": "Lookup kernels of the debugger's server.Client executed on symbolic streams: TxAtQueueTick, TxAtMachTime (real sort.Search / slices.BinarySearchFunc), "
                    "HadErrSinceTx, TxIndex with its cache (incl. ids that arrive after a miss), Tx/TxParsed bounds and FilterIndexByCursor1 return what a linear scan of the "
                    "same predicate returns, for every stream of up to 4 transitions with monotone 64-bit ticks / sums and every query value; the debugger's hFilterTx never "
                    "shows a record excluded by an active basic filter (auto, auto-canceled, canceled, queued, checks, empty) for any flag combination; no reachable panic.",
            "note": "Partial: hParseMsg derivations, TUI navigation, export/import and multi-client server are outside the claim. Trusted: go/ssa, symgo, z3.",
            "technique": TECH_FORK, "design_ref": "DESIGN.md section 4 (C16)"},
    "C19": {"text": "Every exported machine.Schema variable of the module (44 at the pinned commit, found by a go/types scan and dumped natively from the current source into "
                    "Go literals) is checked for well-formedness (parses, references, Require cycle, Require-Remove conflict, agreement with its typed name list) and then "
                    "driven through the real Add1/Remove1 path from the empty machine for every history of bounded depth with the mutated state and kind as symbolic choices: "
                    "Require closure and mutual-Remove exclusivity hold after every step.",
            "note": MK_NOTE + " Bounded histories only (depth 2 quick / 3 thorough for small schemas): active sets that need longer histories are outside the claim.",
            "technique": TECH_FORK, "design_ref": "DESIGN.md A.4 / section 4 (C19)"},
    "C18": {"text": "Kernel: the real add()/remove() pipe closures (flat and non-flat, local and non-local target) are executed for every toggle history of bounded length "
                    "with each forked delivery scheduled at a symbolic point (before a later toggle or at quiescence, any order): at quiescence the target must be active "
                    "exactly when the source is, and the closures never block. Reordering of forked deliveries is a known finding, reproduced natively by gating the stub target. BindAny's real AnyState "
                    "closure is run over every history of 3 source transitions with arbitrary target sets: the target's active set equals the source's after each "
                    "(the superset test that never mirrored deactivations was repaired, fix: 6b80c89).",
            "note": "Partial: the target is a recording stub of am.Api; Bind* assembly by reflection and network consumers are outside the claim. Trusted: go/ssa, symgo, z3.",
            "technique": TECH_FORK, "design_ref": "DESIGN.md section 4 (C18)"},
    "C15": {"text": "Partial (state groups only): the shipped supervisor, worker, client and bootstrap schemas of pkg/node/states, dumped from the current source, are driven "
                    "through the real mutation path for every history of two single-state mutations from the empty machine with symbolic choices; no two members of a "
                    "mutually-Removing group (pool status, pool normalisation, work status) are ever active together and Require closure holds. Gate kernel: the real "
                    "ForkWorkerEnter, min, PoolReadyEnter and PoolReadyExit on a Supervisor literal for every Min/Max 0..6 and 0..7 tracked / ready workers: no fork at Max, "
                    "PoolReady granted iff at least min(Min,Max) are ready and withdrawn iff fewer are.",
            "note": "readyWorkers is overridden by a counter; ForkingWorkerEnter, the error-kill threshold (TTL caches) and the worker-map writers are NOT encoded (they need the "
                    "RPC / process plumbing); histories longer than two mutations are outside the bound. Trusted: go/ssa, symgo, z3.",
            "technique": TECH_FORK, "design_ref": "DESIGN.md A.4 (C15)"},
    "C17": {"text": "In-memory history kernel executed path by path: the real tracer.TransitionEnd (match rules, TrackRejected, checks never tracked, rotation at MaxRecords, "
                    "tracked times = time after) on constructed transitions, and the real Memory.FindLatest / ValidateQuery / Match against a reference predicate (exactly the "
                    "matching records, newest first, truncated at the limit). The state-condition defects found in FindLatest were repaired (fix: 6390ea9).",
            "note": "Partial: persistent backends, crash points, Export/Import, MTime ranges are outside the claim. Trusted: go/ssa, symgo, z3.",
            "technique": TECH_FORK, "design_ref": "DESIGN.md section 4 (C17)"},
    "C09": {"text": "Single-message kernel only: the real Client.RemoteUpdate / RemoteUpdateMutations / clockUpdate / clockUpdateMutations / clockFromUpdate on one delivered "
                    "push against a mirror that is in sync or visibly drifted: afterwards the mirror holds exactly the clocks the message was derived for, or a full sync was "
                    "requested, and a wrong clock is never applied silently. RemoteUpdate dropping the resync was found this way and repaired (fix commit in known_findings.json).",
            "note": "Partial: liveness, ordering of pushes / replies / syncs, reconnects and the network machine's own processing are outside the claim (network, goroutines). "
                    "Overrides: NetworkMachine.updateClock and Client.Sync are recording stubs. Trusted: go/ssa, symgo, z3.",
            "technique": TECH_FORK, "design_ref": "DESIGN.md section 4 (C09)"},
})

NA = {
    "C12": "data-race freedom is a property of the Go memory model over all schedules with the race detector as oracle; it is not a value-level assertion "
           "that symbolic execution + SMT of the code can decide (DESIGN.md section 5)",
}
