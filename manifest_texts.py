HOOK_COMMITS = []
NOTES = ("All checks are bounded: every claim holds for all inputs inside the stated bounds (evidence/<id>.json: coverage.bounds) and says nothing "
         "outside them. Known findings are listed in known_findings.json; see DESIGN.md.")

CLAIMS = {
    "C10": {
        "text": "Bounded symbolic execution of the real server encoder (sourceTracer.TransitionEnd snapshot, calcUpdate, genDeepUpdate, genShallowUpdate, "
                "calcUpdateMutations, Checksum, calcTrackedStates) against the real client decoder (clockFromUpdate) and the checksum test: for every "
                "state count 1..4 (thorough 1..6), every tracked subset, both index spaces, all 64-bit previous clocks and every delta the wire format can "
                "represent, the round trip is exact and accepted, a drifted mirror is rejected, and chains of per-mutation updates compose. z3 decides each "
                "obligation for all values at once; the four ways in which the tree breaks the property (three truncating wire fields, shallow checksum) are "
                "known findings that are re-confirmed by native replay on every run.",
        "note": "Assumes: snapshots produced by the real TransitionEnd from a stub am.Api source; mirror = first snapshot in client index space; go statement "
                "(pushClient) dropped; the 4-line checksum comparison of Client.clockUpdate is restated in the harness. Trusted: go/ssa, the symgo interpreter "
                "(validated against the native build on concrete inputs each run), z3.",
        "design_ref": "DESIGN.md section 4 (C10)",
    },
}

NA = {
    "C12": "data-race freedom is a property of the Go memory model over all schedules with the race detector as oracle; it is not a value-level assertion "
           "that symbolic execution + SMT of the code can decide (DESIGN.md section 5)",
}
