#!/usr/bin/env python3
"""Discovers every exported machine.Schema variable of the module (go/types scan by `symgo discover`), generates a Go program
that dumps them (schema, typed state-name lists, group structs) as JSON, runs it against the current /repo with -overlay.
usage: dump_schemas.py <repo> <out.json>"""
import json, os, subprocess, sys, tempfile, shutil

ROOT = os.path.dirname(os.path.dirname(os.path.abspath(__file__)))
ENV = dict(os.environ, GOFLAGS="-mod=mod", GOPROXY="off", GOSUMDB="off", GOTOOLCHAIN="local",
           PATH="/opt/veriftools/go1.26.8/bin:" + os.environ.get("PATH", ""))


def main():
    repo, out = sys.argv[1], sys.argv[2]
    disc = json.loads(subprocess.run([os.path.join(ROOT, "bin", "symgo"), "discover", repo], env=ENV, capture_output=True, text=True, check=True).stdout)
    tmp = tempfile.mkdtemp(prefix="verif-dump-")
    results = []
    try:
        for i, d in enumerate(disc):
            src = ['package main', 'import (', '"encoding/json"', '"fmt"', '"reflect"', 'p "%s"' % d["pkg"], ')',
                   'type rec struct { Pkg, Name string; Schema any; Names map[string][]string; Groups map[string]map[string][]string }',
                   'func groups(v any) map[string][]string { out := map[string][]string{}; rv := reflect.ValueOf(v); for rv.Kind() == reflect.Ptr { if rv.IsNil() { return out }; rv = rv.Elem() }; if rv.Kind() != reflect.Struct { return out }; for i := 0; i < rv.NumField(); i++ { f := rv.Field(i); if f.Kind() == reflect.Slice && f.Type().Elem().Kind() == reflect.String { var l []string; for j := 0; j < f.Len(); j++ { l = append(l, f.Index(j).String()) }; out[rv.Type().Field(i).Name] = l } }; return out }',
                   'func main() {', 'var out []rec']
            for sname in d["schemas"]:
                src.append('{ r := rec{Pkg: "%s", Name: "%s", Schema: p.%s, Names: map[string][]string{}, Groups: map[string]map[string][]string{}}' % (d["pkg"], sname, sname))
                for nl in d.get("name_lists") or []:
                    src.append('r.Names["%s"] = []string(p.%s.Names())' % (nl, nl))
                src.append('out = append(out, r) }')
            src += ['b, _ := json.Marshal(out)', 'fmt.Println(string(b))', '}']
            f = os.path.join(tmp, "main%d.go" % i)
            open(f, "w").write("\n".join(src))
            ov = os.path.join(tmp, "ov%d.json" % i)
            vdir = os.path.join(repo, "zzverifdump%d" % i)
            json.dump({"Replace": {os.path.join(vdir, "main.go"): f}}, open(ov, "w"))
            r = subprocess.run(["go", "run", "-overlay", ov, "./zzverifdump%d" % i], cwd=repo, env=ENV, capture_output=True, text=True)
            if r.returncode != 0:
                results.append({"Pkg": d["pkg"], "error": (r.stderr or r.stdout)[-400:]})
                continue
            results += json.loads(r.stdout.strip().splitlines()[-1])
        json.dump(results, open(out, "w"), indent=1)
    finally:
        shutil.rmtree(tmp, ignore_errors=True)


if __name__ == "__main__":
    main()
