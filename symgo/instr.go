package main

import (
	"fmt"
	"os"
	"strings"
	"go/constant"
	"go/token"
	"go/types"
	"sort"

	"golang.org/x/tools/go/ssa"
)

func constantFloatInt(c *ssa.Const) (int64, bool) {
	f, _ := constant.Float64Val(constant.ToFloat(c.Value))
	if f == float64(int64(f)) && f > -1e15 && f < 1e15 {
		return int64(f), true
	}
	return 0, false
}

func constantBool(c *ssa.Const) bool     { return constant.BoolVal(c.Value) }
func constantString(c *ssa.Const) string { return constant.StringVal(c.Value) }

func constU64(c *ssa.Const) uint64 {
	x := constant.ToInt(c.Value)
	if x.Kind() != constant.Int {
		return 0
	}
	if constant.Sign(x) < 0 {
		return uint64(c.Int64())
	}
	return c.Uint64()
}

func (fr *Frame) exec(ins ssa.Instruction) {
	in := fr.in
	g := fr.g
	saved := in.curSite
	in.curSite = in.site(ins)
	defer func() { in.curSite = saved }()
	switch x := ins.(type) {
	case *ssa.DebugRef:
	case *ssa.Alloc:
		l := in.newLoc(x.Type().(*types.Pointer).Elem(), x.Comment)
		fr.env[x] = ptrTo(l)
	case *ssa.BinOp:
		fr.env[x] = in.binop(g, x.Op, fr.val(x.X), fr.val(x.Y), x.X.Type(), x.Y.Type())
	case *ssa.UnOp:
		fr.env[x] = fr.unop(x)
	case *ssa.Call:
		rs := fr.doCall(x.Common(), g, x)
		switch len(rs) {
		case 0:
		case 1:
			fr.env[x] = rs[0]
		default:
			fr.env[x] = &TupleVal{Elems: rs}
		}
	case *ssa.ChangeInterface:
		fr.env[x] = fr.val(x.X)
	case *ssa.ChangeType:
		fr.env[x] = fr.val(x.X)
	case *ssa.Convert:
		fr.env[x] = in.convert(g, fr.val(x.X), x.X.Type(), x.Type())
	case *ssa.MultiConvert:
		fr.env[x] = in.convert(g, fr.val(x.X), x.X.Type(), x.Type())
	case *ssa.Defer:
		fr.execDefer(x)
	case *ssa.Extract:
		tv, ok := fr.val(x.Tuple).(*TupleVal)
		if !ok {
			fr.env[x] = &Opaque{"extract from non-tuple"}
			break
		}
		fr.env[x] = tv.Elems[x.Index]
	case *ssa.Field:
		tv, ok := fr.val(x.X).(*TupleVal)
		if !ok {
			fr.env[x] = &Opaque{"field of opaque"}
			break
		}
		fr.env[x] = tv.Elems[x.Field]
	case *ssa.FieldAddr:
		p, ok := fr.val(x.X).(*PtrVal)
		if !ok {
			in.unsupported(g, "FieldAddr on non-pointer")
			fr.env[x] = &PtrVal{}
			break
		}
		in.abort(mkAnd(g, mkNot(p.nonNil())), "panic", in.curSite, "nil pointer dereference")
		alts := make([]PtrAlt, 0, len(p.Alts))
		for _, a := range p.Alts {
			if x.Field < len(a.L.kids) {
				alts = append(alts, PtrAlt{a.G, a.L.kids[x.Field]})
			}
		}
		fr.env[x] = &PtrVal{Alts: alts}
	case *ssa.Go:
		fr.execGo(x)
	case *ssa.If:
		c, ok := fr.val(x.Cond).(*Term)
		if !ok {
			in.unsupported(g, "branch on opaque value")
			return
		}
		b := x.Block()
		if in.forkMode {
			if in.decide(c) {
				fr.edge(b, 0, g)
			} else {
				fr.edge(b, 1, g)
			}
			return
		}
		c = restrictTerm(c, g)
		fr.edge(b, 0, mkAnd(g, c))
		fr.edge(b, 1, mkAnd(g, mkNot(c)))
	case *ssa.Index:
		fr.env[x] = fr.index(x)
	case *ssa.IndexAddr:
		fr.env[x] = fr.indexAddr(x)
	case *ssa.Jump:
		fr.edge(x.Block(), 0, g)
	case *ssa.Lookup:
		fr.env[x] = fr.lookup(x)
	case *ssa.MakeChan:
		sz := 0
		if t, ok := fr.val(x.Size).(*Term); ok && t.IsConst() {
			sz = int(t.val)
		}
		c := in.newChan(x.Type().Underlying().(*types.Chan).Elem(), sz)
		fr.env[x] = &ChanVal{Alts: []ChanAlt{{tTrue, c}}}
	case *ssa.MakeClosure:
		binds := make([]Value, len(x.Bindings))
		for i, b := range x.Bindings {
			binds[i] = fr.val(b)
		}
		fr.env[x] = &FuncVal{Alts: []FuncAlt{{G: tTrue, Fn: x.Fn.(*ssa.Function), Binds: binds}}}
	case *ssa.MakeInterface:
		fr.env[x] = &IfaceVal{Alts: []IfaceAlt{{G: tTrue, T: x.X.Type(), V: fr.val(x.X)}}}
	case *ssa.MakeMap:
		mt := x.Type().Underlying().(*types.Map)
		fr.env[x] = &MapVal{Alts: []MapAlt{{tTrue, in.newMap(mt.Key(), mt.Elem())}}}
	case *ssa.MakeSlice:
		fr.env[x] = fr.makeSlice(x)
	case *ssa.MapUpdate:
		m, ok := fr.val(x.Map).(*MapVal)
		if !ok {
			in.unsupported(g, "MapUpdate on opaque")
			break
		}
		in.abort(mkAnd(g, mkNot(m.nonNil())), "panic", in.curSite, "assignment to entry in nil map")
		k, v := fr.val(x.Key), fr.val(x.Value)
		for _, a := range m.Alts {
			in.mapStore(a.M, mkAnd(g, a.G), k, v)
		}
	case *ssa.Next:
		fr.env[x] = fr.next(x)
	case *ssa.Panic:
		msg := "explicit panic"
		if iv, ok := fr.val(x.X).(*IfaceVal); ok && len(iv.Alts) == 1 {
			if sv, ok := iv.Alts[0].V.(*StrVal); ok && sv.Code.IsConst() {
				msg = "panic: " + strTab[sv.Code.val]
			}
		}
		in.abort(g, "panic", in.curSite, msg)
	case *ssa.Range:
		fr.env[x] = fr.rangeIter(x)
	case *ssa.Return:
		vals := make([]Value, len(x.Results))
		for i, r := range x.Results {
			vals[i] = fr.val(r)
		}
		fr.ret(g, vals)
	case *ssa.RunDefers:
		fr.runDefers()
	case *ssa.Select:
		fr.env[x] = fr.execSelect(x)
	case *ssa.Send:
		fr.execSend(x)
	case *ssa.Slice:
		fr.env[x] = fr.sliceOp(x)
	case *ssa.SliceToArrayPointer:
		in.unsupported(g, "SliceToArrayPointer")
		fr.env[x] = &PtrVal{}
	case *ssa.Store:
		p, ok := fr.val(x.Addr).(*PtrVal)
		if !ok {
			in.unsupported(g, "store through opaque pointer")
			break
		}
		in.abort(mkAnd(g, mkNot(p.nonNil())), "panic", in.curSite, "nil pointer dereference (store)")
		v := fr.val(x.Val)
		for _, a := range p.Alts {
			in.store(a.L, mkAnd(g, a.G), v)
		}
	case *ssa.TypeAssert:
		fr.env[x] = fr.typeAssert(x)
	default:
		in.unsupported(g, fmt.Sprintf("instruction %T", ins))
	}
}

// ---- loads

func (in *Interp) loadPtr(g *Term, p *PtrVal, t types.Type) Value {
	in.abort(mkAnd(g, mkNot(p.nonNil())), "panic", in.curSite, "nil pointer dereference")
	if len(p.Alts) == 0 {
		return in.zero(t)
	}
	var r Value
	for i := len(p.Alts) - 1; i >= 0; i-- {
		a := p.Alts[i]
		v := in.load(a.L)
		if r == nil {
			r = v
		} else {
			r = in.merge(a.G, v, r)
		}
	}
	return r
}

func (fr *Frame) unop(x *ssa.UnOp) Value {
	in := fr.in
	g := fr.g
	v := fr.val(x.X)
	switch x.Op {
	case token.MUL:
		p, ok := v.(*PtrVal)
		if !ok {
			in.unsupported(g, "load through opaque pointer")
			return in.opaqueOf(x.Type(), "load through opaque")
		}
		return in.restrictVal(in.loadPtr(g, p, x.Type()), g)
	case token.NOT:
		t, ok := v.(*Term)
		if !ok {
			return &Opaque{"not opaque"}
		}
		return mkNot(t)
	case token.SUB:
		t, ok := v.(*Term)
		if !ok {
			return &Opaque{"neg opaque"}
		}
		return mkUn(OpNeg, t)
	case token.XOR:
		t, ok := v.(*Term)
		if !ok {
			return &Opaque{"compl opaque"}
		}
		return mkUn(OpBNot, t)
	case token.ARROW:
		return fr.recv(x, v, x.CommaOk)
	}
	in.unsupported(g, "unop "+x.Op.String())
	return &Opaque{"unop"}
}

func (in *Interp) opaqueOf(t types.Type, why string) Value {
	if isString(t) {
		return opaqueStr(why)
	}
	return &Opaque{why}
}

// ---- arithmetic

func (in *Interp) binop(g *Term, op token.Token, a, b Value, ta, tb types.Type) Value {
	switch op {
	case token.EQL:
		return in.eq(a, b)
	case token.NEQ:
		return mkNot(in.eq(a, b))
	}
	if sa, ok := a.(*StrVal); ok {
		sb, ok2 := b.(*StrVal)
		if !ok2 {
			return &Opaque{"string op with opaque"}
		}
		return in.strBinop(g, op, sa, sb)
	}
	x, ok1 := a.(*Term)
	y, ok2 := b.(*Term)
	if !ok1 || !ok2 {
		if op == token.LSS || op == token.LEQ || op == token.GTR || op == token.GEQ {
			// comparison result on opaque operands stays opaque
			return &Opaque{"compare opaque"}
		}
		return &Opaque{"arith on opaque"}
	}
	_, signed, _ := bvWidth(ta)
	if x.w == 0 {
		switch op {
		case token.AND, token.LAND:
			return mkAnd(x, y)
		case token.OR, token.LOR:
			return mkOr(x, y)
		case token.XOR:
			return mkNot(mkEq(x, y))
		case token.AND_NOT:
			return mkAnd(x, mkNot(y))
		}
		in.unsupported(g, "bool binop "+op.String())
		return tFalse
	}
	switch op {
	case token.ADD:
		return mkBin(OpAdd, x, y)
	case token.SUB:
		return mkBin(OpSub, x, y)
	case token.MUL:
		return mkBin(OpMul, x, y)
	case token.QUO:
		in.abort(mkAnd(g, mkEq(y, mkConst(y.w, 0))), "panic", in.curSite, "integer divide by zero")
		if signed {
			return mkBin(OpSDiv, x, y)
		}
		return mkBin(OpUDiv, x, y)
	case token.REM:
		in.abort(mkAnd(g, mkEq(y, mkConst(y.w, 0))), "panic", in.curSite, "integer divide by zero")
		if signed {
			return mkBin(OpSRem, x, y)
		}
		return mkBin(OpURem, x, y)
	case token.AND:
		return mkBin(OpBAnd, x, y)
	case token.OR:
		return mkBin(OpBOr, x, y)
	case token.XOR:
		return mkBin(OpBXor, x, y)
	case token.AND_NOT:
		return mkBin(OpBAnd, x, mkUn(OpBNot, y))
	case token.SHL, token.SHR:
		_, ysigned, _ := bvWidth(tb)
		if ysigned {
			in.abort(mkAnd(g, mkCmp(OpSlt, y, mkConst(y.w, 0))), "panic", in.curSite, "negative shift amount")
		}
		sh := shiftAmount(y, x.w)
		if op == token.SHL {
			return mkBin(OpShl, x, sh)
		}
		if signed {
			return mkBin(OpAShr, x, sh)
		}
		return mkBin(OpLShr, x, sh)
	case token.LSS:
		if signed {
			return mkCmp(OpSlt, x, y)
		}
		return mkCmp(OpUlt, x, y)
	case token.LEQ:
		if signed {
			return mkCmp(OpSle, x, y)
		}
		return mkCmp(OpUle, x, y)
	case token.GTR:
		if signed {
			return mkCmp(OpSlt, y, x)
		}
		return mkCmp(OpUlt, y, x)
	case token.GEQ:
		if signed {
			return mkCmp(OpSle, y, x)
		}
		return mkCmp(OpUle, y, x)
	}
	in.unsupported(g, "binop "+op.String())
	return &Opaque{"binop"}
}

func shiftAmount(y *Term, w uint8) *Term {
	if y.w == w {
		return y
	}
	if y.w < w {
		return mkZExt(y, w)
	}
	// wider count: saturate
	big := mkCmp(OpUle, mkConst(y.w, uint64(w)), y)
	return mkIte(big, mkConst(w, uint64(w)), mkExtract(y, w-1, 0))
}

func (in *Interp) strBinop(g *Term, op token.Token, a, b *StrVal) Value {
	switch op {
	case token.ADD:
		var alts []StrAlt
		bAlts := b.Alts()
		for _, p := range a.Alts() {
			for _, q := range bAlts {
				gg := mkAnd(p.G, q.G)
				if gg.IsFalse() {
					continue
				}
				if p.Opq || q.Opq {
					alts = append(alts, StrAlt{gg, "\x00opaque:concat", true})
				} else {
					alts = append(alts, StrAlt{gg, p.S + q.S, false})
				}
			}
		}
		return normStr(alts)
	case token.LSS, token.LEQ, token.GTR, token.GEQ:
		var gs []*Term
		bAlts := b.Alts()
		for _, p := range a.Alts() {
			for _, q := range bAlts {
				if p.Opq || q.Opq {
					in.unsupported(mkAnd(g, p.G, q.G), "ordering of opaque string")
					continue
				}
				var r bool
				switch op {
				case token.LSS:
					r = p.S < q.S
				case token.LEQ:
					r = p.S <= q.S
				case token.GTR:
					r = p.S > q.S
				case token.GEQ:
					r = p.S >= q.S
				}
				if r {
					gs = append(gs, mkAnd(p.G, q.G))
				}
			}
		}
		return mkOr(gs...)
	}
	in.unsupported(g, "string binop "+op.String())
	return &Opaque{"string binop"}
}

func (in *Interp) convert(g *Term, v Value, from, to types.Type) Value {
	if _, ok := v.(*Opaque); ok {
		return in.opaqueOf(to, "convert of opaque")
	}
	wf, sf, okf := bvWidth(from)
	wt, _, okt := bvWidth(to)
	if okf && okt && wf > 0 && wt > 0 {
		t := v.(*Term)
		if wt <= wf {
			return mkExtract(t, wt-1, 0)
		}
		if sf {
			return mkSExt(t, wt)
		}
		return mkZExt(t, wt)
	}
	if isFloat(to) && okf && wf > 0 {
		t := v.(*Term)
		if sf {
			return &FloatInt{mkSExt(t, 64)}
		}
		if wf < 64 {
			return &FloatInt{mkZExt(t, 64)}
		}
		return &Opaque{"uint64 to float"}
	}
	if isFloat(from) && okt && wt > 0 {
		if f, ok := v.(*FloatInt); ok {
			if wt < 64 {
				return mkExtract(f.T, wt-1, 0)
			}
			return f.T
		}
		return &Opaque{"float conversion"}
	}
	if isFloat(to) || isFloat(from) {
		if _, ok := v.(*FloatInt); ok {
			return v
		}
		return &Opaque{"float conversion"}
	}
	if isString(to) {
		if isString(from) {
			return v
		}
		if okf {
			// string(rune)
			t := v.(*Term)
			if t.IsConst() {
				return strConst(string(rune(sext64(t.val, t.w))))
			}
			return in.opaqueOf(to, "string(rune)")
		}
		if sl, ok := v.(*SliceVal); ok {
			// string([]byte) for concrete contents
			if s, ok := in.concreteBytes(sl); ok {
				return strConst(s)
			}
			return in.opaqueOf(to, "string(bytes)")
		}
	}
	if isString(from) {
		if st, ok := to.Underlying().(*types.Slice); ok {
			sv := v.(*StrVal)
			if sv.Code.IsConst() && !strOpq[sv.Code.val] {
				if w, _, ok := bvWidth(st.Elem()); ok && w == 8 {
					s := strTab[sv.Code.val]
					arr := in.newArray(st.Elem(), len(s))
					for i := 0; i < len(s); i++ {
						arr.kids[i].val = mkConst(8, uint64(s[i]))
					}
					n := mkConst(64, uint64(len(s)))
					return &SliceVal{Alts: []SliceAlt{{tTrue, arr, 0, n, n}}}
				}
			}
			in.unsupported(g, "string to slice conversion of symbolic string")
			return &SliceVal{}
		}
	}
	// pointer <-> unsafe.Pointer, named conversions
	return v
}

func (in *Interp) concreteBytes(sl *SliceVal) (string, bool) {
	if len(sl.Alts) == 0 {
		return "", true
	}
	if len(sl.Alts) != 1 || !sl.Alts[0].G.IsTrue() || !sl.Alts[0].Len.IsConst() {
		return "", false
	}
	a := sl.Alts[0]
	n := int(a.Len.val)
	bs := make([]byte, n)
	for i := 0; i < n; i++ {
		t, ok := a.Arr.kids[a.Off+i].val.(*Term)
		if !ok || !t.IsConst() {
			return "", false
		}
		bs[i] = byte(t.val)
	}
	return string(bs), true
}

// ---- indexing

// toIdx widens an index / length operand to 64 bits (sign- or zero-extending by its static type).
func toIdx(v Value, typ ...types.Type) *Term {
	t, ok := v.(*Term)
	if !ok {
		return nil
	}
	if t.w < 64 {
		if len(typ) > 0 {
			if _, signed, ok := bvWidth(typ[0]); ok && !signed {
				return mkZExt(t, 64)
			}
		}
		return mkSExt(t, 64)
	}
	return t
}

// elemAddrs returns the guarded element locations of arr[off+idx] for idx in [0,limit).
func (in *Interp) elemAddrs(g *Term, arr *Loc, off int, idx *Term, n int) []PtrAlt {
	if idx.IsConst() {
		k := int(idx.val)
		if idx.val < uint64(n) && off+k < len(arr.kids) {
			return []PtrAlt{{g, arr.kids[off+k]}}
		}
		return nil
	}
	lo, hi := idx.lo, idx.hi
	if hi >= uint64(n) {
		hi = uint64(n) - 1
	}
	var out []PtrAlt
	for k := lo; k <= hi && n > 0; k++ {
		if off+int(k) >= len(arr.kids) {
			break
		}
		gg := mkAnd(g, mkEq(idx, mkConst(64, k)))
		if !gg.IsFalse() {
			out = append(out, PtrAlt{gg, arr.kids[off+int(k)]})
		}
	}
	return out
}

func (fr *Frame) indexAddr(x *ssa.IndexAddr) Value {
	in := fr.in
	g := fr.g
	idx := toIdx(fr.val(x.Index), x.Index.Type())
	if idx == nil {
		in.unsupported(g, "opaque index")
		return &PtrVal{}
	}
	switch base := fr.val(x.X).(type) {
	case *SliceVal:
		var alts []PtrAlt
		inb := tFalse
		for _, a := range base.Alts {
			inb = mkOr(inb, mkAnd(a.G, mkCmp(OpUlt, idx, a.Len)))
			n := len(a.Arr.kids) - a.Off
			if a.Len.hi < uint64(n) {
				n = int(a.Len.hi)
			}
			alts = append(alts, in.elemAddrs(a.G, a.Arr, a.Off, idx, n)...)
		}
		in.abort(mkAnd(g, mkNot(inb)), "panic", in.curSite, "index out of range")
		return normPtr(alts)
	case *PtrVal: // pointer to array
		in.abort(mkAnd(g, mkNot(base.nonNil())), "panic", in.curSite, "nil pointer dereference")
		var alts []PtrAlt
		inb := tFalse
		for _, a := range base.Alts {
			n := len(a.L.kids)
			inb = mkOr(inb, mkAnd(a.G, mkCmp(OpUlt, idx, mkConst(64, uint64(n)))))
			alts = append(alts, in.elemAddrs(a.G, a.L, 0, idx, n)...)
		}
		in.abort(mkAnd(g, mkNot(inb)), "panic", in.curSite, "index out of range")
		return normPtr(alts)
	}
	in.unsupported(g, "IndexAddr on opaque")
	return &PtrVal{}
}

func (fr *Frame) index(x *ssa.Index) Value {
	in := fr.in
	g := fr.g
	idx := toIdx(fr.val(x.Index), x.Index.Type())
	if idx == nil {
		in.unsupported(g, "opaque index")
		return in.zero(x.Type())
	}
	switch base := fr.val(x.X).(type) {
	case *TupleVal:
		n := len(base.Elems)
		in.abort(mkAnd(g, mkNot(mkCmp(OpUlt, idx, mkConst(64, uint64(n))))), "panic", in.curSite, "index out of range")
		if idx.IsConst() {
			if idx.val < uint64(n) {
				return base.Elems[idx.val]
			}
			return in.zero(x.Type())
		}
		var r Value = in.zero(x.Type())
		for k := n - 1; k >= 0; k-- {
			r = in.merge(mkEq(idx, mkConst(64, uint64(k))), base.Elems[k], r)
		}
		return r
	case *StrVal:
		return in.strIndex(g, base, idx)
	}
	in.unsupported(g, "Index on opaque")
	return in.zero(x.Type())
}

func (in *Interp) strIndex(g *Term, s *StrVal, idx *Term) Value {
	var r *Term = mkConst(8, 0)
	inb := tFalse
	for _, a := range s.Alts() {
		if a.Opq {
			in.unsupported(mkAnd(g, a.G), "index of opaque string")
			continue
		}
		n := len(a.S)
		inb = mkOr(inb, mkAnd(a.G, mkCmp(OpUlt, idx, mkConst(64, uint64(n)))))
		var c *Term = mkConst(8, 0)
		if idx.IsConst() {
			if idx.val < uint64(n) {
				c = mkConst(8, uint64(a.S[idx.val]))
			}
		} else {
			for k := n - 1; k >= 0; k-- {
				c = mkIte(mkEq(idx, mkConst(64, uint64(k))), mkConst(8, uint64(a.S[k])), c)
			}
		}
		r = mkIte(a.G, c, r)
	}
	in.abort(mkAnd(g, mkNot(inb)), "panic", in.curSite, "string index out of range")
	return r
}

func (fr *Frame) lookup(x *ssa.Lookup) Value {
	in := fr.in
	g := fr.g
	switch base := fr.val(x.X).(type) {
	case *StrVal:
		idx := toIdx(fr.val(x.Index), x.Index.Type())
		if idx == nil {
			in.unsupported(g, "opaque string index")
			return mkConst(8, 0)
		}
		return in.strIndex(g, base, idx)
	case *MapVal:
		mt := x.X.Type().Underlying().(*types.Map)
		k := fr.val(x.Index)
		var val Value = in.zero(mt.Elem())
		ok := tFalse
		for i := len(base.Alts) - 1; i >= 0; i-- {
			a := base.Alts[i]
			v, present := in.mapLoad(a.M, k, mt.Elem())
			val = in.merge(a.G, v, val)
			ok = mkIte(a.G, present, ok)
		}
		if x.CommaOk {
			return &TupleVal{Elems: []Value{val, ok}}
		}
		return val
	}
	in.unsupported(g, "Lookup on opaque")
	if x.CommaOk {
		return &TupleVal{Elems: []Value{in.opaqueOf(x.Type().(*types.Tuple).At(0).Type(), "lookup"), tFalse}}
	}
	return in.opaqueOf(x.Type(), "lookup")
}

// ---- slices

func (fr *Frame) makeSlice(x *ssa.MakeSlice) Value {
	in := fr.in
	g := fr.g
	ln := toIdx(fr.val(x.Len), x.Len.Type())
	cp := toIdx(fr.val(x.Cap), x.Cap.Type())
	if ln == nil || cp == nil {
		in.unsupported(g, "make with opaque size")
		return &SliceVal{}
	}
	et := x.Type().Underlying().(*types.Slice).Elem()
	in.abort(mkAnd(g, mkNot(mkCmp(OpUle, ln, cp))), "panic", in.curSite, "makeslice: len out of range")
	return in.allocSlice(g, et, ln, cp)
}

func (in *Interp) allocSlice(g *Term, et types.Type, ln, cp *Term) *SliceVal {
	n := cp.hi
	if n > maxArray {
		// unbounded symbolic capacity: cannot allocate
		in.unsupported(g, fmt.Sprintf("allocation with unbounded size (hi=%d)", n))
		n = 0
	}
	arr := in.newArray(et, int(n))
	return &SliceVal{Alts: []SliceAlt{{tTrue, arr, 0, ln, cp}}}
}

func (fr *Frame) sliceOp(x *ssa.Slice) Value {
	in := fr.in
	g := fr.g
	var lo, hi, mx *Term
	if x.Low != nil {
		lo = toIdx(fr.val(x.Low), x.Low.Type())
	} else {
		lo = mkConst(64, 0)
	}
	if x.High != nil {
		hi = toIdx(fr.val(x.High), x.High.Type())
	}
	if x.Max != nil {
		mx = toIdx(fr.val(x.Max), x.Max.Type())
	}
	if lo == nil || (x.High != nil && hi == nil) || (x.Max != nil && mx == nil) {
		in.unsupported(g, "slice with opaque bounds")
		return in.zero(x.Type())
	}
	switch base := fr.val(x.X).(type) {
	case *StrVal:
		var alts []StrAlt
		for _, a := range base.Alts() {
			if a.Opq {
				alts = append(alts, a)
				continue
			}
			n := uint64(len(a.S))
			h := hi
			if h == nil {
				h = mkConst(64, n)
			}
			ok := mkAnd(mkCmp(OpUle, lo, h), mkCmp(OpUle, h, mkConst(64, n)))
			in.abort(mkAnd(g, a.G, mkNot(ok)), "panic", in.curSite, "string slice bounds out of range")
			// distribute over concrete bounds
			for l := lo.lo; l <= min(lo.hi, n); l++ {
				gl := mkAnd(a.G, mkEq(lo, mkConst(64, l)))
				if gl.IsFalse() {
					continue
				}
				for hh := max(h.lo, l); hh <= min(h.hi, n); hh++ {
					gh := mkAnd(gl, mkEq(h, mkConst(64, hh)))
					if gh.IsFalse() {
						continue
					}
					alts = append(alts, StrAlt{gh, a.S[l:hh], false})
				}
			}
		}
		return normStr(alts)
	case *SliceVal:
		var alts []SliceAlt
		okAll := mkNot(base.nonNil()) // nil slice: only [0:0] is fine
		if len(base.Alts) == 0 {
			h := hi
			if h == nil {
				h = mkConst(64, 0)
			}
			in.abort(mkAnd(g, mkNot(mkAnd(mkEq(lo, mkConst(64, 0)), mkEq(h, mkConst(64, 0))))), "panic", in.curSite, "slice bounds out of range")
			return &SliceVal{}
		}
		okAll = mkAnd(okAll, mkEq(lo, mkConst(64, 0)))
		for _, a := range base.Alts {
			h := hi
			if h == nil {
				h = a.Len
			}
			m := mx
			if m == nil {
				m = a.Cap
			}
			ok := mkAnd(mkCmp(OpUle, lo, h), mkCmp(OpUle, h, m), mkCmp(OpUle, m, a.Cap))
			okAll = mkOr(okAll, mkAnd(a.G, ok))
			// distribute the low bound
			limit := uint64(len(a.Arr.kids) - a.Off)
			for l := lo.lo; l <= min(lo.hi, limit); l++ {
				gl := mkAnd(a.G, mkEq(lo, mkConst(64, l)))
				if gl.IsFalse() {
					continue
				}
				lc := mkConst(64, l)
				alts = append(alts, SliceAlt{gl, a.Arr, a.Off + int(l), mkBin(OpSub, h, lc), mkBin(OpSub, m, lc)})
			}
		}
		in.abort(mkAnd(g, mkNot(okAll)), "panic", in.curSite, "slice bounds out of range")
		return normSlice(alts)
	case *PtrVal: // pointer to array
		in.abort(mkAnd(g, mkNot(base.nonNil())), "panic", in.curSite, "nil pointer dereference")
		var alts []SliceAlt
		okAll := tFalse
		for _, a := range base.Alts {
			n := uint64(len(a.L.kids))
			h := hi
			if h == nil {
				h = mkConst(64, n)
			}
			m := mx
			if m == nil {
				m = mkConst(64, n)
			}
			ok := mkAnd(mkCmp(OpUle, lo, h), mkCmp(OpUle, h, m), mkCmp(OpUle, m, mkConst(64, n)))
			okAll = mkOr(okAll, mkAnd(a.G, ok))
			for l := lo.lo; l <= min(lo.hi, n); l++ {
				gl := mkAnd(a.G, mkEq(lo, mkConst(64, l)))
				if gl.IsFalse() {
					continue
				}
				lc := mkConst(64, l)
				alts = append(alts, SliceAlt{gl, a.L, int(l), mkBin(OpSub, h, lc), mkBin(OpSub, m, lc)})
			}
		}
		in.abort(mkAnd(g, mkNot(okAll)), "panic", in.curSite, "slice bounds out of range")
		return normSlice(alts)
	}
	in.unsupported(g, "Slice on opaque")
	return in.zero(x.Type())
}

// sliceElem loads element idx (concrete) of a slice alternative.
func (in *Interp) sliceElemLoc(a SliceAlt, k int) *Loc {
	if a.Off+k < len(a.Arr.kids) {
		return a.Arr.kids[a.Off+k]
	}
	return nil
}

// growCap mirrors runtime.growslice's capacity computation for small element sizes
// (without size-class rounding, which only adds slack).
func growCap(oldCap, needed int) int {
	newcap := oldCap
	doublecap := newcap + newcap
	if needed > doublecap {
		return needed
	}
	const threshold = 256
	if oldCap < threshold {
		return doublecap
	}
	for newcap < needed {
		newcap += (newcap + 3*threshold) >> 2
	}
	return newcap
}

// appendVals implements append(s, elems...) where elems is given as a slice value.
func (in *Interp) appendSlice(g *Term, s, add *SliceVal, et types.Type) *SliceVal {
	addLen := add.length()
	if addLen.IsConst() && addLen.val == 0 {
		return s
	}
	// read the added elements first (they may alias the destination)
	maxAdd := add.maxLen()
	addVals := make([]Value, maxAdd)
	for j := 0; j < maxAdd; j++ {
		addVals[j] = in.sliceLoad(add, mkConst(64, uint64(j)), et)
	}
	var alts []SliceAlt
	type srcAlt struct {
		G        *Term
		a        *SliceAlt
		Len, Cap *Term
	}
	srcs := []srcAlt{}
	for i := range s.Alts {
		a := &s.Alts[i]
		srcs = append(srcs, srcAlt{a.G, a, a.Len, a.Cap})
	}
	nilG := mkNot(s.nonNil())
	if !nilG.IsFalse() {
		srcs = append(srcs, srcAlt{nilG, nil, mkConst(64, 0), mkConst(64, 0)})
	}
	for _, sa := range srcs {
		newLen := mkBin(OpAdd, sa.Len, addLen)
		fits := mkCmp(OpUle, newLen, sa.Cap)
		if sa.a == nil {
			fits = mkEq(addLen, mkConst(64, 0))
		}
		gIn := mkAnd(sa.G, fits)
		gOut := mkAnd(sa.G, mkNot(fits))
		if !gIn.IsFalse() && sa.a != nil {
			// in place
			for j := 0; j < maxAdd; j++ {
				gj := mkAnd(g, gIn, mkCmp(OpUlt, mkConst(64, uint64(j)), addLen))
				if gj.IsFalse() {
					continue
				}
				pos := mkBin(OpAdd, sa.Len, mkConst(64, uint64(j)))
				n := len(sa.a.Arr.kids) - sa.a.Off
				for _, pa := range in.elemAddrs(gj, sa.a.Arr, sa.a.Off, pos, n) {
					in.store(pa.L, pa.G, addVals[j])
				}
			}
			alts = append(alts, SliceAlt{gIn, sa.a.Arr, sa.a.Off, newLen, sa.Cap})
		} else if !gIn.IsFalse() {
			// nil slice, nothing appended: stays nil
		}
		if !gOut.IsFalse() {
			// reallocate
			var newCap *Term
			var size int
			if sa.Cap.IsConst() && newLen.IsConst() {
				size = growCap(int(sa.Cap.val), int(newLen.val))
				newCap = mkConst(64, uint64(size))
			} else {
				// symbolic: tight capacity (modelling choice, see DESIGN 2.3)
				hi := newLen.hi
				if sa.a != nil {
					if b := uint64(int(min(sa.Len.hi, uint64(len(sa.a.Arr.kids)-sa.a.Off))) + maxAdd); b < hi {
						hi = b
					}
				} else if uint64(maxAdd) < hi {
					hi = uint64(maxAdd)
				}
				if hi > maxArray {
					in.unsupported(mkAnd(g, gOut), "append with unbounded length: "+newLen.str(6))
					hi = 0
				}
				size = int(hi)
				newCap = newLen
			}
			if size > 256 {
				fmt.Fprintf(os.Stderr, "big append alloc size=%d maxAdd=%d newLen=%s at %s\n", size, maxAdd, newLen.str(3), in.curSite)
			}
			arr := in.newArray(et, size)
			// copy old
			if sa.a != nil {
				oldMax := int(min(sa.Len.hi, uint64(len(sa.a.Arr.kids)-sa.a.Off)))
				for k := 0; k < oldMax && k < size; k++ {
					arr.kids[k].val = nil
					in.storeInit(arr.kids[k], in.load(sa.a.Arr.kids[sa.a.Off+k]))
				}
			}
			for j := 0; j < maxAdd; j++ {
				gj := mkCmp(OpUlt, mkConst(64, uint64(j)), addLen)
				if gj.IsFalse() {
					continue
				}
				pos := mkBin(OpAdd, sa.Len, mkConst(64, uint64(j)))
				for _, pa := range in.elemAddrs(gj, arr, 0, pos, size) {
					in.store(pa.L, pa.G, addVals[j])
				}
			}
			alts = append(alts, SliceAlt{gOut, arr, 0, newLen, newCap})
		}
	}
	return normSlice(alts)
}

// storeInit overwrites a fresh location unconditionally.
func (in *Interp) storeInit(l *Loc, v Value) {
	if l.kids != nil {
		tv, ok := v.(*TupleVal)
		if !ok {
			return
		}
		for i, k := range l.kids {
			in.storeInit(k, tv.Elems[i])
		}
		return
	}
	l.val = v
}

// sliceLoad loads s[idx] (no bounds obligation; callers add it).
func (in *Interp) sliceLoad(s *SliceVal, idx *Term, et types.Type) Value {
	var r Value
	for i := len(s.Alts) - 1; i >= 0; i-- {
		a := s.Alts[i]
		n := len(a.Arr.kids) - a.Off
		if a.Len.hi < uint64(n) {
			n = int(a.Len.hi)
		}
		var v Value
		for _, pa := range in.elemAddrs(tTrue, a.Arr, a.Off, idx, n) {
			lv := in.load(pa.L)
			if v == nil {
				v = lv
			} else {
				v = in.merge(pa.G, lv, v)
			}
		}
		if v == nil {
			v = in.zero(et)
		}
		if r == nil {
			r = v
		} else {
			r = in.merge(a.G, v, r)
		}
	}
	if r == nil {
		r = in.zero(et)
	}
	return r
}

// ---- maps

func (in *Interp) newMap(kt, vt types.Type) *MapObj {
	in.mapCount++
	return &MapObj{id: in.mapCount, KT: kt, VT: vt}
}

// keyAlts splits a key value into concrete alternatives when possible.
func keyAlts(k Value) []struct {
	G *Term
	K Value
} {
	type ka = struct {
		G *Term
		K Value
	}
	switch x := k.(type) {
	case *StrVal:
		xa := x.Alts()
		out := make([]ka, 0, len(xa))
		for _, a := range xa {
			out = append(out, ka{a.G, normStr([]StrAlt{{tTrue, a.S, a.Opq}})})
		}
		return out
	case *PtrVal:
		out := make([]ka, 0, len(x.Alts)+1)
		for _, a := range x.Alts {
			out = append(out, ka{a.G, ptrTo(a.L)})
		}
		if nn := mkNot(x.nonNil()); !nn.IsFalse() {
			out = append(out, ka{nn, &PtrVal{}})
		}
		return out
	case *Term:
		if x.leaves > 1 && x.leaves <= 16 {
			var out []ka
			var walk func(t *Term, g *Term)
			walk = func(t *Term, g *Term) {
				if t.op == OpIte {
					walk(t.args[1], mkAnd(g, t.args[0]))
					walk(t.args[2], mkAnd(g, mkNot(t.args[0])))
					return
				}
				out = append(out, ka{g, t})
			}
			walk(x, tTrue)
			return out
		}
	}
	return []ka{{tTrue, k}}
}

func (in *Interp) mapLoad(m *MapObj, k Value, vt types.Type) (Value, *Term) {
	var val Value = in.zero(vt)
	ok := tFalse
	if ck, isC := concreteKey(k); isC {
		for _, e := range m.Entries {
			if e.KeyStr == ck {
				return in.merge(e.Present, e.Val, val), e.Present
			}
		}
		// fallthrough: symbolic-key entries may still match
	}
	for i := len(m.Entries) - 1; i >= 0; i-- {
		e := m.Entries[i]
		c := mkAnd(e.Present, in.eq(k, e.Key))
		if c.IsFalse() {
			continue
		}
		val = in.merge(c, e.Val, val)
		ok = mkOr(ok, c)
	}
	return val, ok
}

func (in *Interp) mapStore(m *MapObj, g *Term, k, v Value) {
	if g.IsFalse() {
		return
	}
	for _, ka := range keyAlts(k) {
		gg := mkAnd(g, ka.G)
		if gg.IsFalse() {
			continue
		}
		in.mapStore1(m, gg, ka.K, v)
	}
}

func (in *Interp) mapStore1(m *MapObj, g *Term, k, v Value) {
	ck, isC := concreteKey(k)
	matched := tFalse
	for _, e := range m.Entries {
		var c *Term
		if isC && e.KeyStr != "" {
			c = mkBool(e.KeyStr == ck)
		} else {
			c = in.eq(k, e.Key)
		}
		if c.IsFalse() {
			continue
		}
		// an absent entry with an equal key is simply revived
		gc := mkAnd(g, c)
		e.Val = in.merge(gc, v, e.Val)
		e.Present = mkOr(e.Present, gc)
		matched = mkOr(matched, c)
		if c.IsTrue() {
			return
		}
	}
	ne := &MapEntry{Key: k, Present: mkAnd(g, mkNot(matched)), Val: v}
	if isC {
		ne.KeyStr = ck
	}
	m.Entries = append(m.Entries, ne)
}

func (in *Interp) mapDelete(m *MapObj, g *Term, k Value) {
	for _, e := range m.Entries {
		c := in.eq(k, e.Key)
		if c.IsFalse() {
			continue
		}
		e.Present = mkAnd(e.Present, mkNot(mkAnd(g, c)))
	}
}

func (m *MapObj) length() *Term {
	r := mkConst(64, 0)
	for _, e := range m.Entries {
		r = mkBin(OpAdd, r, mkIte(e.Present, mkConst(64, 1), mkConst(64, 0)))
	}
	return r
}

// ---- range / next

type iterEnt struct {
	g *Term
	m *MapObj
	e *MapEntry
}
type MapIter struct {
	ents []iterEnt
	pos  *Term
	kt   types.Type
	vt   types.Type
}
type StrIter struct {
	s   *StrVal
	pos *Term
}

func (fr *Frame) rangeIter(x *ssa.Range) Value {
	in := fr.in
	switch base := fr.val(x.X).(type) {
	case *MapVal:
		mt := x.X.Type().Underlying().(*types.Map)
		it := &MapIter{pos: mkConst(64, 0), kt: mt.Key(), vt: mt.Elem()}
		for _, a := range base.Alts {
			ents := append([]*MapEntry(nil), a.M.Entries...)
			// deterministic order: concrete keys sorted, symbolic keys after them in insertion order
			sort.SliceStable(ents, func(i, j int) bool {
				ki, kj := ents[i].KeyStr, ents[j].KeyStr
				if ki == "" || kj == "" {
					return ki != "" && kj == ""
				}
				return ki < kj
			})
			if in.permuteMaps && in.forkMode && len(ents) > 1 && len(ents) <= 4 && in.permuteHere(fr) {
				// the iteration order of this range is a symbolic choice: one path per permutation
				perms := permutations(len(ents))
				v := in.fresh("maporder", "maporder", 8, fr.g)
				chosen := len(perms) - 1
				for pi := 0; pi < len(perms)-1; pi++ {
					if in.decide(mkEq(v, mkConst(8, uint64(pi)))) {
						chosen = pi
						break
					}
				}
				pe := make([]*MapEntry, len(ents))
				for i, p := range perms[chosen] {
					pe[i] = ents[p]
				}
				ents = pe
			}
			if in.mapOrder != nil && len(ents) > 1 {
				keys := make([]string, len(ents))
				for i, e := range ents {
					keys[i] = e.KeyStr
				}
				perm := in.mapOrder(keys)
				if len(perm) == len(ents) {
					pe := make([]*MapEntry, len(ents))
					for i, p := range perm {
						pe[i] = ents[p]
					}
					ents = pe
				}
			}
			for _, e := range ents {
				it.ents = append(it.ents, iterEnt{a.G, a.M, e})
			}
		}
		return it
	case *StrVal:
		return &StrIter{s: base, pos: mkConst(64, 0)}
	}
	in.unsupported(fr.g, "range over opaque")
	return &Opaque{"range"}
}

func (fr *Frame) next(x *ssa.Next) Value {
	in := fr.in
	g := fr.g
	switch it := fr.val(x.Iter).(type) {
	case *MapIter:
		ok := tFalse
		var key Value = in.zero(it.kt)
		var val Value = in.zero(it.vt)
		newPos := it.pos
		for i := len(it.ents) - 1; i >= 0; i-- {
			ent := it.ents[i]
			c := mkAnd(mkCmp(OpUle, it.pos, mkConst(64, uint64(i))), ent.g, ent.e.Present)
			if c.IsFalse() {
				continue
			}
			key = in.merge(c, ent.e.Key, key)
			val = in.merge(c, ent.e.Val, val)
			newPos = mkIte(c, mkConst(64, uint64(i+1)), newPos)
			ok = mkOr(c, ok)
		}
		it.pos = mkIte(g, newPos, it.pos)
		return &TupleVal{Elems: []Value{ok, key, val}}
	case *StrIter:
		if it.s.Code.IsConst() && !strOpq[it.s.Code.val] && it.pos.IsConst() {
			s := strTab[it.s.Code.val]
			p := int(it.pos.val)
			if p >= len(s) {
				return &TupleVal{Elems: []Value{tFalse, mkConst(64, 0), mkConst(32, 0)}}
			}
			var r rune
			var sz int
			for i, c := range s[p:] {
				if i == 0 {
					r = c
				} else {
					sz = i
					break
				}
			}
			if sz == 0 {
				sz = len(s) - p
			}
			if !g.IsTrue() {
				// position update under a symbolic guard would make the iterator symbolic
				it.pos = mkIte(g, mkConst(64, uint64(p+sz)), it.pos)
			} else {
				it.pos = mkConst(64, uint64(p+sz))
			}
			return &TupleVal{Elems: []Value{tTrue, mkConst(64, uint64(p)), mkConst(32, uint64(r))}}
		}
		in.unsupported(g, "range over symbolic string")
		return &TupleVal{Elems: []Value{tFalse, mkConst(64, 0), mkConst(32, 0)}}
	}
	in.unsupported(g, "next on opaque iterator")
	return &TupleVal{Elems: []Value{tFalse, &Opaque{"next"}, &Opaque{"next"}}}
}

func (in *Interp) permuteHere(fr *Frame) bool {
	name := fr.fn.String()
	for _, s := range in.permuteSites {
		// "Caller>Callee": the ranging function matches Callee and some function on the call stack matches Caller
		if caller, callee, ok := strings.Cut(s, ">"); ok {
			if !strings.Contains(name, callee) {
				continue
			}
			for _, k := range in.callStack {
				if strings.Contains(k, caller) {
					return true
				}
			}
			continue
		}
		if strings.Contains(name, s) {
			return true
		}
	}
	return false
}

func permutations(n int) [][]int {
	if n == 1 {
		return [][]int{{0}}
	}
	var out [][]int
	for _, p := range permutations(n - 1) {
		for i := 0; i <= len(p); i++ {
			q := append(append(append([]int{}, p[:i]...), n-1), p[i:]...)
			out = append(out, q)
		}
	}
	return out
}

// ---- type assertions

func (fr *Frame) typeAssert(x *ssa.TypeAssert) Value {
	in := fr.in
	g := fr.g
	iv, ok := fr.val(x.X).(*IfaceVal)
	if !ok {
		in.unsupported(g, "type assertion on opaque")
		if x.CommaOk {
			return &TupleVal{Elems: []Value{in.opaqueOf(x.AssertedType, "assert"), tFalse}}
		}
		return in.opaqueOf(x.AssertedType, "assert")
	}
	okT := tFalse
	var res Value
	if _, isIface := x.AssertedType.Underlying().(*types.Interface); isIface {
		it := x.AssertedType.Underlying().(*types.Interface)
		var alts []IfaceAlt
		for _, a := range iv.Alts {
			impl := false
			if a.T == nil {
				impl = true // native objects implement what they are asked for
			} else {
				impl = types.Implements(a.T, it)
			}
			if impl {
				alts = append(alts, a)
				okT = mkOr(okT, a.G)
			}
		}
		res = &IfaceVal{Alts: alts}
	} else {
		res = in.zero(x.AssertedType)
		for _, a := range iv.Alts {
			if a.T != nil && types.Identical(a.T, x.AssertedType) {
				res = in.merge(a.G, a.V, res)
				okT = mkOr(okT, a.G)
			}
		}
	}
	if x.CommaOk {
		return &TupleVal{Elems: []Value{res, okT}}
	}
	in.abort(mkAnd(g, mkNot(okT)), "panic", in.curSite, "interface conversion failed: "+x.AssertedType.String())
	return res
}
