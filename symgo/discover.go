package main

// discover: static scan (go/types) of the module for exported package-level variables of type
// machine.Schema, their state-name structs and group structs. Prints JSON.

import (
	"encoding/json"
	"fmt"
	"go/types"
	"os"
	"sort"
	"strings"

	"golang.org/x/tools/go/packages"
)

type discovered struct {
	Pkg     string   `json:"pkg"`
	Schemas []string `json:"schemas"`
	// exported vars whose type has a Names() method returning machine.S (typed state-name lists)
	NameLists []string `json:"name_lists"`
}

func runDiscover(repo string) {
	cfg := &packages.Config{
		Mode: packages.NeedName | packages.NeedTypes | packages.NeedImports | packages.NeedDeps | packages.NeedFiles | packages.NeedSyntax | packages.NeedTypesInfo,
		Dir:  repo,
		Env:  append(os.Environ(), "GOFLAGS=-mod=mod", "GOPROXY=off", "GOSUMDB=off", "GOTOOLCHAIN=local"),
	}
	pkgs, err := packages.Load(cfg, "./...")
	if err != nil {
		fmt.Fprintln(os.Stderr, "discover:", err)
		os.Exit(2)
	}
	var out []discovered
	for _, p := range pkgs {
		if p.Types == nil || strings.Contains(p.PkgPath, "/examples/") && false {
			continue
		}
		if p.Name == "main" {
			continue // not importable
		}
		d := discovered{Pkg: p.PkgPath}
		scope := p.Types.Scope()
		for _, name := range scope.Names() {
			obj, ok := scope.Lookup(name).(*types.Var)
			if !ok || !obj.Exported() {
				continue
			}
			t := obj.Type()
			if nt, ok := t.(*types.Named); ok && nt.Obj().Name() == "Schema" && nt.Obj().Pkg() != nil && strings.HasSuffix(nt.Obj().Pkg().Path(), "pkg/machine") {
				d.Schemas = append(d.Schemas, name)
				continue
			}
			// typed state lists: method Names() S
			ms := types.NewMethodSet(t)
			if sel := ms.Lookup(nil, "Names"); sel != nil {
				if sig, ok := sel.Type().(*types.Signature); ok && sig.Results().Len() == 1 {
					if rt, ok := sig.Results().At(0).Type().(*types.Named); ok && rt.Obj().Name() == "S" {
						d.NameLists = append(d.NameLists, name)
					}
				}
			}
		}
		if len(d.Schemas) > 0 {
			sort.Strings(d.Schemas)
			sort.Strings(d.NameLists)
			out = append(out, d)
		}
	}
	sort.Slice(out, func(i, j int) bool { return out[i].Pkg < out[j].Pkg })
	data, _ := json.MarshalIndent(out, "", " ")
	fmt.Println(string(data))
}
