package main

// Native model of package context.

import (
	"go/types"

	"golang.org/x/tools/go/ssa"
)

type ctxData struct {
	parent    *NativeObj
	children  []*NativeObj
	done      *ChanObj // nil for Background
	cancelled *Term
	key, val  Value
	errObj    *IfaceVal
}

func (in *Interp) ctxOf(o *NativeObj) *ctxData { return o.Fields["data"].(*ctxBox).d }

type ctxBox struct{ d *ctxData }

func (in *Interp) canceledErr() *IfaceVal {
	if in.ctxCanceled == nil {
		in.ctxCanceled = in.newError(strConst("context canceled"))
		in.ctxDeadline = in.newError(strConst("context deadline exceeded"))
		// publish through the package globals when the package is loaded
		if pkg := in.prog.ImportedPackage("context"); pkg != nil {
			if g, ok := pkg.Members["Canceled"].(*ssa.Global); ok {
				in.global(g).val = in.ctxCanceled
			}
			if g, ok := pkg.Members["DeadlineExceeded"].(*ssa.Global); ok {
				in.global(g).val = in.ctxDeadline
			}
		}
	}
	return in.ctxCanceled
}

func (in *Interp) newCtx(parent *NativeObj, withDone bool) *NativeObj {
	o := in.newNative("ctx")
	d := &ctxData{parent: parent, cancelled: tFalse}
	if withDone {
		d.done = in.newChan(types.NewStruct(nil, nil), 0)
		d.done.Name = "ctx.Done"
	}
	o.Fields["data"] = &ctxBox{d}
	if parent != nil {
		pd := in.ctxOf(parent)
		pd.children = append(pd.children, o)
		// a child of an already (possibly) cancelled parent starts out cancelled
		if pc := in.ctxCancelledTerm(parent); !pc.IsFalse() && withDone {
			d.cancelled = pc
			d.done.Closed = pc
		}
	}
	return o
}

func (in *Interp) ctxCancelledTerm(o *NativeObj) *Term {
	r := tFalse
	for x := o; x != nil; x = in.ctxOf(x).parent {
		r = mkOr(r, in.ctxOf(x).cancelled)
	}
	return r
}

func (in *Interp) ctxCancel(o *NativeObj, g *Term) {
	d := in.ctxOf(o)
	d.cancelled = mkOr(d.cancelled, g)
	if d.done != nil {
		d.done.Closed = mkOr(d.done.Closed, g)
	}
	for _, c := range d.children {
		in.ctxCancel(c, g)
	}
}

// parentObjs resolves a context interface value into native context objects.
func (in *Interp) parentObjs(g *Term, v Value) []struct {
	G *Term
	O *NativeObj
} {
	type po = struct {
		G *Term
		O *NativeObj
	}
	iv, ok := v.(*IfaceVal)
	if !ok {
		in.unsupported(g, "opaque context")
		return nil
	}
	var out []po
	for _, a := range iv.Alts {
		o, ok := a.V.(*NativeObj)
		if a.T != nil || !ok || o.Kind != "ctx" {
			in.unsupported(mkAnd(g, a.G), "non-native context implementation")
			continue
		}
		out = append(out, po{a.G, o})
	}
	return out
}

func registerContext(in *Interp) {
	I := in.intrinsics
	bg := func(fr *Frame, g *Term, args []Value, site ssa.Instruction, fn *ssa.Function) []Value {
		if in.ctxBackground == nil {
			in.ctxBackground = in.newCtx(nil, false)
		}
		return []Value{in.nativeIface(in.ctxBackground)}
	}
	I["context.Background"] = bg
	I["context.TODO"] = bg
	withCancel := func(fr *Frame, g *Term, args []Value, site ssa.Instruction, fn *ssa.Function) []Value {
		ps := in.parentObjs(g, args[0])
		var parent *NativeObj
		if len(ps) == 1 {
			parent = ps[0].O
		} else if len(ps) > 1 {
			in.unsupported(g, "context with a union parent")
			parent = ps[0].O
		} else {
			in.abort(g, "panic", in.curSite, "cannot create context from nil parent")
		}
		o := in.newCtx(parent, true)
		in.canceledErr()
		cancel := &FuncVal{Alts: []FuncAlt{{G: tTrue, Native: "#ctxcancel", NatArg: []Value{o}}}}
		if fn.Name() == "WithTimeout" || fn.Name() == "WithDeadline" {
			exp := in.timerFires(g)
			d := in.ctxOf(o)
			d.cancelled = mkOr(d.cancelled, exp)
			d.done.Closed = mkOr(d.done.Closed, exp)
		}
		return []Value{in.nativeIface(o), cancel}
	}
	I["context.WithCancel"] = withCancel
	I["context.WithTimeout"] = withCancel
	I["context.WithDeadline"] = withCancel
	I["#ctxcancel"] = func(fr *Frame, g *Term, args []Value, site ssa.Instruction, fn *ssa.Function) []Value {
		in.ctxCancel(args[0].(*NativeObj), g)
		return nil
	}
	I["context.WithValue"] = func(fr *Frame, g *Term, args []Value, site ssa.Instruction, fn *ssa.Function) []Value {
		ps := in.parentObjs(g, args[0])
		var parent *NativeObj
		if len(ps) >= 1 {
			parent = ps[0].O
			if len(ps) > 1 {
				in.unsupported(g, "context with a union parent")
			}
		}
		o := in.newCtx(parent, false)
		d := in.ctxOf(o)
		d.key, d.val = args[1], args[2]
		return []Value{in.nativeIface(o)}
	}
	I["context.Cause"] = func(fr *Frame, g *Term, args []Value, site ssa.Instruction, fn *ssa.Function) []Value {
		return in.ctxErr(g, args[0])
	}
}

func (in *Interp) ctxErr(g *Term, v Value) []Value {
	var res Value = &IfaceVal{}
	for _, p := range in.parentObjs(g, v) {
		c := in.ctxCancelledTerm(p.O)
		var e Value = &IfaceVal{}
		if !c.IsFalse() {
			e = in.merge(c, in.canceledErr(), &IfaceVal{})
		}
		res = in.merge(p.G, e, res)
	}
	return []Value{res}
}

func (in *Interp) ctxInvoke(fr *Frame, g *Term, o *NativeObj, method string, args []Value, sig *types.Signature, site ssa.Instruction) []Value {
	d := in.ctxOf(o)
	switch method {
	case "Err":
		c := in.ctxCancelledTerm(o)
		if c.IsFalse() {
			return []Value{&IfaceVal{}}
		}
		return []Value{in.merge(c, in.canceledErr(), &IfaceVal{})}
	case "Done":
		// nearest ancestor with a done channel
		for x := o; x != nil; x = in.ctxOf(x).parent {
			if dd := in.ctxOf(x).done; dd != nil {
				return []Value{&ChanVal{Alts: []ChanAlt{{tTrue, dd}}}}
			}
		}
		return []Value{&ChanVal{}}
	case "Value":
		for x := o; x != nil; x = in.ctxOf(x).parent {
			xd := in.ctxOf(x)
			if xd.key != nil {
				e := in.eq(xd.key, args[0])
				if e.IsTrue() {
					return []Value{xd.val}
				}
				if !e.IsFalse() {
					rest := in.ctxInvoke(fr, g, xd.parentOrBg(in), "Value", args, sig, site)
					return []Value{in.merge(e, xd.val, rest[0])}
				}
			}
		}
		return []Value{&IfaceVal{}}
	case "Deadline":
		return in.zeroResults(sig)
	}
	_ = d
	in.abort(g, "unsupported", in.site(site), "context method "+method)
	return in.opaqueResults(sig, "ctx method")
}

func (d *ctxData) parentOrBg(in *Interp) *NativeObj {
	if d.parent != nil {
		return d.parent
	}
	if in.ctxBackground == nil {
		in.ctxBackground = in.newCtx(nil, false)
	}
	return in.ctxBackground
}
