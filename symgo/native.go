package main

// Intrinsics: harness API, sync, atomics, time, strings, sort, channels, select.

import (
	"fmt"
	"os"
	"go/types"
	"strconv"
	"strings"

	"golang.org/x/tools/go/ssa"
)

func (in *Interp) newChan(et types.Type, cap int) *ChanObj {
	in.chanCount++
	return &ChanObj{id: in.chanCount, ET: et, Cap: cap, Closed: tFalse, EnvReady: tFalse}
}

func (c *ChanObj) length() *Term {
	r := mkConst(64, 0)
	for _, it := range c.Buf {
		r = mkBin(OpAdd, r, mkIte(it.G, mkConst(64, 1), mkConst(64, 0)))
	}
	return r
}

func (in *Interp) fresh(kind, name string, w uint8, g *Term) *Term {
	in.nondetSeq++
	if in.concrete {
		var v uint64
		switch {
		case w == 0:
			v = uint64(in.rng.Intn(2))
		case in.rng.Intn(3) == 0:
			v = in.rng.Uint64()
		default:
			v = interesting[in.rng.Intn(len(interesting))]
		}
		t := mkConst(w, v)
		in.nondets = append(in.nondets, Nondet{Name: fmt.Sprintf("%s_%d", name, in.nondetSeq), Kind: kind, T: t, Guard: tTrue, Site: in.curSite})
		return t
	}
	t := mkVar(fmt.Sprintf("%s_%d", name, in.nondetSeq), w)
	in.nondets = append(in.nondets, Nondet{Name: t.name, Kind: kind, T: t, Guard: g, Site: in.curSite})
	return t
}

func strArg(v Value) (string, bool) {
	s, ok := v.(*StrVal)
	if !ok || !s.Code.IsConst() || strOpq[s.Code.val] {
		return "", false
	}
	return strTab[s.Code.val], true
}

func (in *Interp) addAssume(g, c *Term) {
	a := mkImplies(g, c)
	if a.IsTrue() {
		return
	}
	in.assume = mkAnd(in.assume, a)
	in.assumeList = append(in.assumeList, a)
}

// recvReady returns (ready, value, okFlag) for a receive on channel object c.
func (in *Interp) chanRecvState(c *ChanObj) (ready *Term, val Value, ok *Term) {
	val = in.zero(c.ET)
	has := tFalse
	// first buffered item
	for i := len(c.Buf) - 1; i >= 0; i-- {
		it := c.Buf[i]
		val = in.merge(it.G, it.V, val)
		has = mkOr(has, it.G)
	}
	if !c.EnvReady.IsFalse() {
		if _, isOp := val.(*Opaque); !isOp && len(c.Buf) == 0 {
			val = in.opaqueOf(c.ET, "env channel value")
			if isAggregate(c.ET) {
				val = in.zero(c.ET)
			}
		}
	}
	ready = mkOr(has, c.Closed, c.EnvReady)
	ok = mkOr(has, mkAnd(mkNot(c.Closed), c.EnvReady))
	return
}

// chanConsume removes the first buffered item under guard g.
func (in *Interp) chanConsume(c *ChanObj, g *Term) {
	// the first item whose guard holds is consumed
	taken := tFalse
	for i := range c.Buf {
		it := &c.Buf[i]
		take := mkAnd(g, it.G, mkNot(taken))
		taken = mkOr(taken, it.G)
		it.G = mkAnd(it.G, mkNot(take))
	}
	// drop dead items
	out := c.Buf[:0]
	for _, it := range c.Buf {
		if !it.G.IsFalse() {
			out = append(out, it)
		}
	}
	c.Buf = out
}

func (fr *Frame) recv(x *ssa.UnOp, v Value, commaOk bool) Value {
	in := fr.in
	g := fr.g
	ch, okc := v.(*ChanVal)
	et := x.X.Type().Underlying().(*types.Chan).Elem()
	if !okc {
		in.unsupported(g, "receive from opaque channel")
		return in.zero(x.Type())
	}
	in.abort(mkAnd(g, mkNot(ch.nonNil())), "wouldblock", in.curSite, "receive from nil channel")
	var val Value = in.zero(et)
	okT := tFalse
	for i := len(ch.Alts) - 1; i >= 0; i-- {
		a := ch.Alts[i]
		gg := mkAnd(g, a.G)
		// rendezvous reply
		if len(a.C.Reply) > 0 {
			it := a.C.Reply[0]
			a.C.Reply = a.C.Reply[1:]
			val = in.merge(a.G, it.V, val)
			okT = mkIte(a.G, tTrue, okT)
			continue
		}
		ready, v1, ok1 := in.chanRecvState(a.C)
		in.abort(mkAnd(gg, mkNot(ready)), "wouldblock", in.curSite, "receive would block forever ("+a.C.Name+")")
		in.chanConsume(a.C, gg)
		val = in.merge(a.G, v1, val)
		okT = mkIte(a.G, ok1, okT)
	}
	if commaOk {
		return &TupleVal{Elems: []Value{val, okT}}
	}
	return val
}

func (fr *Frame) execSend(x *ssa.Send) {
	in := fr.in
	g := fr.g
	ch, ok := fr.val(x.Chan).(*ChanVal)
	if !ok {
		in.unsupported(g, "send on opaque channel")
		return
	}
	in.abort(mkAnd(g, mkNot(ch.nonNil())), "wouldblock", in.curSite, "send on nil channel")
	v := fr.val(x.X)
	for _, a := range ch.Alts {
		in.chanSend(fr, mkAnd(g, a.G), a.C, v, x)
	}
}

func (in *Interp) chanSend(fr *Frame, g *Term, c *ChanObj, v Value, site ssa.Instruction) {
	if g.IsFalse() {
		return
	}
	in.abort(mkAnd(g, c.Closed), "panic", in.site(site), "send on closed channel")
	if c.Server != nil {
		in.callFuncVal(fr, g, c.Server, []Value{v}, nil, site)
		return
	}
	if c.Cap > 0 {
		full := mkCmp(OpUle, mkConst(64, uint64(c.Cap)), c.length())
		in.abort(mkAnd(g, full), "wouldblock", in.site(site), "send on full channel")
		c.Buf = append(c.Buf, chanItem{g, v})
		return
	}
	in.abort(g, "wouldblock", in.site(site), "send on unbuffered channel without receiver ("+c.Name+")")
}

func (fr *Frame) execSelect(x *ssa.Select) Value {
	in := fr.in
	g := fr.g
	n := len(x.States)
	ready := make([]*Term, n)
	vals := make([]Value, n)
	oks := make([]*Term, n)
	chans := make([]*ChanVal, n)
	for i, st := range x.States {
		ch, ok := fr.val(st.Chan).(*ChanVal)
		if !ok {
			in.unsupported(g, "select on opaque channel")
			ready[i] = tFalse
			continue
		}
		chans[i] = ch
		r := tFalse
		if st.Dir == types.RecvOnly {
			et := st.Chan.Type().Underlying().(*types.Chan).Elem()
			var val Value = in.zero(et)
			okT := tFalse
			for j := len(ch.Alts) - 1; j >= 0; j-- {
				a := ch.Alts[j]
				if len(a.C.Reply) > 0 {
					r = mkOr(r, a.G)
					val = in.merge(a.G, a.C.Reply[0].V, val)
					okT = mkIte(a.G, tTrue, okT)
					continue
				}
				rd, v1, ok1 := in.chanRecvState(a.C)
				r = mkOr(r, mkAnd(a.G, rd))
				val = in.merge(a.G, v1, val)
				okT = mkIte(a.G, ok1, okT)
			}
			vals[i] = val
			oks[i] = okT
		} else {
			for _, a := range ch.Alts {
				if a.C.Server != nil {
					r = mkOr(r, a.G)
				} else if a.C.Cap > 0 {
					r = mkOr(r, mkAnd(a.G, mkCmp(OpUlt, a.C.length(), mkConst(64, uint64(a.C.Cap)))))
				}
			}
		}
		ready[i] = r
	}
	anyReady := mkOr(ready...)
	// chosen index
	var idx *Term
	nReadyConst := 0
	last := -1
	allConst := true
	for i, r := range ready {
		if r.IsTrue() {
			nReadyConst++
			last = i
		} else if !r.IsFalse() {
			allConst = false
		}
	}
	if allConst && nReadyConst <= 1 {
		if nReadyConst == 1 {
			idx = mkConst(64, uint64(last))
		} else {
			idx = mkConst(64, ^uint64(0))
		}
	} else {
		c := in.fresh("select", "sel", 64, g)
		var cs []*Term
		for i, r := range ready {
			cs = append(cs, mkAnd(mkEq(c, mkConst(64, uint64(i))), r))
		}
		in.addAssume(mkAnd(g, anyReady), mkOr(cs...))
		idx = mkIte(anyReady, c, mkConst(64, ^uint64(0)))
	}
	if x.Blocking {
		in.abort(mkAnd(g, mkNot(anyReady)), "wouldblock", in.curSite, "select would block forever")
	}
	// effects of the chosen case
	for i, st := range x.States {
		gi := mkAnd(g, mkEq(idx, mkConst(64, uint64(i))))
		if gi.IsFalse() || chans[i] == nil {
			continue
		}
		if st.Dir == types.RecvOnly {
			for _, a := range chans[i].Alts {
				ga := mkAnd(gi, a.G)
				if ga.IsFalse() {
					continue
				}
				if len(a.C.Reply) > 0 {
					if ga == g || gi.IsTrue() || true {
						a.C.Reply = a.C.Reply[1:]
					}
					continue
				}
				in.chanConsume(a.C, ga)
			}
		} else {
			v := fr.val(st.Send)
			for _, a := range chans[i].Alts {
				in.chanSend(fr, mkAnd(gi, a.G), a.C, v, x)
			}
		}
	}
	elems := []Value{idx, tFalse}
	recvOk := tFalse
	for i, st := range x.States {
		if st.Dir == types.RecvOnly {
			recvOk = mkIte(mkEq(idx, mkConst(64, uint64(i))), oks[i], recvOk)
		}
	}
	elems[1] = recvOk
	for i, st := range x.States {
		if st.Dir == types.RecvOnly {
			elems = append(elems, vals[i])
		}
	}
	return &TupleVal{Elems: elems}
}

// ---- native objects

func (in *Interp) newNative(kind string) *NativeObj {
	in.natCount++
	return &NativeObj{id: in.natCount, Kind: kind, Fields: map[string]Value{}, Locs: map[string]*Loc{}}
}

func (in *Interp) nativeIface(o *NativeObj) *IfaceVal {
	return &IfaceVal{Alts: []IfaceAlt{{G: tTrue, T: nil, V: o}}}
}

func (in *Interp) newError(msg *StrVal) *IfaceVal {
	o := in.newNative("error")
	o.Fields["msg"] = msg
	return in.nativeIface(o)
}

func (in *Interp) nativeInvoke(fr *Frame, g *Term, v Value, method string, args []Value, sig *types.Signature, site ssa.Instruction) []Value {
	o, ok := v.(*NativeObj)
	if !ok {
		in.abort(g, "unsupported", in.site(site), "invoke on non-native payload")
		return in.opaqueResults(sig, "native invoke")
	}
	switch o.Kind {
	case "error":
		switch method {
		case "Error":
			return []Value{o.Fields["msg"]}
		case "Unwrap":
			if w, ok := o.Fields["wrapped"]; ok {
				return []Value{w}
			}
			return []Value{&IfaceVal{}}
		}
	case "ctx":
		return in.ctxInvoke(fr, g, o, method, args, sig, site)
	}
	in.abort(g, "unsupported", in.site(site), "native method "+o.Kind+"."+method)
	return in.opaqueResults(sig, "native method")
}

// ---- intrinsic registration

func registerIntrinsics(in *Interp) {
	I := in.intrinsics
	// ---- harness API
	nd := func(kind string, w uint8) Intrinsic {
		return func(fr *Frame, g *Term, args []Value, site ssa.Instruction, fn *ssa.Function) []Value {
			return []Value{in.fresh(kind, kind, w, g)}
		}
	}
	I["#vBool"] = nd("bool", 0)
	I["#vU8"] = nd("u8", 8)
	I["#vU16"] = nd("u16", 16)
	I["#vU32"] = nd("u32", 32)
	I["#vU64"] = nd("u64", 64)
	I["#vInt"] = func(fr *Frame, g *Term, args []Value, site ssa.Instruction, fn *ssa.Function) []Value {
		lo, hi := args[0].(*Term), args[1].(*Term)
		if !lo.IsConst() || !hi.IsConst() {
			in.unsupported(g, "vInt bounds must be constant")
			return []Value{mkConst(64, 0)}
		}
		if in.concrete {
			in.nondetSeq++
			span := int64(hi.val) - int64(lo.val) + 1
			v := int64(lo.val)
			if span > 0 {
				v += in.rng.Int63n(span)
			}
			t := mkConst(64, uint64(v))
			in.nondets = append(in.nondets, Nondet{Name: fmt.Sprintf("int_%d", in.nondetSeq), Kind: "int", T: t, Guard: tTrue})
			return []Value{t}
		}
		t := in.fresh("int", "int", 64, g)
		if sext64(lo.val, 64) >= 0 {
			// build the range constraint before declaring the interval (it would fold to true otherwise)
			c := mkAnd(mkCmp(OpUle, lo, t), mkCmp(OpUle, t, hi))
			in.addAssume(g, c)
			t.lo, t.hi = lo.val, hi.val
		} else {
			in.addAssume(g, mkAnd(mkCmp(OpSle, lo, t), mkCmp(OpSle, t, hi)))
		}
		return []Value{t}
	}
	I["#vAssume"] = func(fr *Frame, g *Term, args []Value, site ssa.Instruction, fn *ssa.Function) []Value {
		c, ok := args[0].(*Term)
		if !ok {
			in.unsupported(g, "vAssume on opaque")
			return nil
		}
		if in.concrete {
			if g.IsTrue() && c.IsFalse() {
				panic(concreteStop{})
			}
			return nil
		}
		if in.forkMode {
			if !in.decide(mkImplies(g, c)) {
				panic(pathEnd{"assumption false"})
			}
			return nil
		}
		in.addAssume(g, c)
		return nil
	}
	I["#vAssert"] = func(fr *Frame, g *Term, args []Value, site ssa.Instruction, fn *ssa.Function) []Value {
		name, _ := strArg(args[0])
		c, ok := args[1].(*Term)
		if !ok {
			in.unsupported(g, "vAssert on opaque value: "+name)
			return nil
		}
		if in.concrete {
			if g.IsTrue() && in.abortAny.IsFalse() {
				in.concreteLog = append(in.concreteLog, fmt.Sprintf("VERIF-ASSERT %s %v", name, c.IsTrue()))
			}
			return nil
		}
		in.asserts = append(in.asserts, Assertion{Name: name, Kind: "assert", Guard: g, Cond: c, Assume: in.assume,
			Aborted: in.abortAny, Known: append([]KnownRegion(nil), in.known...), Site: in.curSite, Seq: len(in.asserts)})
		return nil
	}
	I["#vReach"] = func(fr *Frame, g *Term, args []Value, site ssa.Instruction, fn *ssa.Function) []Value {
		name, _ := strArg(args[0])
		if in.concrete {
			if g.IsTrue() && in.abortAny.IsFalse() {
				in.concreteLog = append(in.concreteLog, "VERIF-REACH "+name)
			}
			return nil
		}
		in.asserts = append(in.asserts, Assertion{Name: name, Kind: "reach", Guard: g, Cond: tFalse, Assume: in.assume,
			Aborted: in.abortAny, Site: in.curSite, Seq: len(in.asserts)})
		return nil
	}
	I["#vKnown"] = func(fr *Frame, g *Term, args []Value, site ssa.Instruction, fn *ssa.Function) []Value {
		name, _ := strArg(args[0])
		c, ok := args[1].(*Term)
		if !ok {
			in.unsupported(g, "vKnown on opaque")
			return []Value{tFalse}
		}
		in.known = append(in.known, KnownRegion{Key: name, Cond: mkAnd(g, c)})
		return []Value{c}
	}
	I["#vLog"] = func(fr *Frame, g *Term, args []Value, site ssa.Instruction, fn *ssa.Function) []Value {
		if in.concrete && g.IsTrue() && in.abortAny.IsFalse() {
			name, _ := strArg(args[0])
			if t, ok := args[1].(*Term); ok && t.IsConst() {
				in.concreteLog = append(in.concreteLog, fmt.Sprintf("VERIF-LOG %s %d", name, t.val))
			} else {
				in.concreteLog = append(in.concreteLog, fmt.Sprintf("VERIF-LOG %s <symbolic>", name))
			}
		}
		return nil
	}
	I["#vSymbolic"] = func(fr *Frame, g *Term, args []Value, site ssa.Instruction, fn *ssa.Function) []Value {
		return []Value{mkBool(!in.concrete)}
	}
	I["#vSplit"] = func(fr *Frame, g *Term, args []Value, site ssa.Instruction, fn *ssa.Function) []Value {
		if c, ok := args[0].(*Term); ok && !c.IsConst() && !in.concrete {
			in.splits = append(in.splits, mkAnd(g, c))
		}
		return nil
	}
	I["#vStats"] = func(fr *Frame, g *Term, args []Value, site ssa.Instruction, fn *ssa.Function) []Value {
		name, _ := strArg(args[0])
		fmt.Fprintf(os.Stderr, "STATS %s: %d term nodes, %d feasibility queries, %d aborts\n", name, TermNodes, in.feasQ, len(in.aborts))
		return nil
	}
	I["#vMapOrder"] = func(fr *Frame, g *Term, args []Value, site ssa.Instruction, fn *ssa.Function) []Value {
		t, ok := args[0].(*Term)
		in.permuteMaps = ok && t.IsConst() && sext64(t.val, 64) >= 0
		return nil
	}
	I["#vParam"] = func(fr *Frame, g *Term, args []Value, site ssa.Instruction, fn *ssa.Function) []Value {
		name, _ := strArg(args[0])
		if v, ok := in.params[name]; ok {
			return []Value{mkConst(64, uint64(v))}
		}
		return []Value{args[1]}
	}
	I["#vServe"] = func(fr *Frame, g *Term, args []Value, site ssa.Instruction, fn *ssa.Function) []Value {
		ch, ok := args[0].(*ChanVal)
		fv, ok2 := args[1].(*FuncVal)
		if !ok || !ok2 || len(ch.Alts) != 1 {
			in.unsupported(g, "vServe needs a concrete channel and function")
			return nil
		}
		ch.Alts[0].C.Server = fv
		return nil
	}
	I["#vReply"] = func(fr *Frame, g *Term, args []Value, site ssa.Instruction, fn *ssa.Function) []Value {
		ch, ok := args[0].(*ChanVal)
		if !ok || len(ch.Alts) != 1 {
			in.unsupported(g, "vReply needs a concrete channel")
			return nil
		}
		c := ch.Alts[0].C
		if len(c.Reply) > 0 {
			last := &c.Reply[len(c.Reply)-1]
			_ = last
		}
		c.Reply = append(c.Reply, chanItem{g, args[1]})
		return nil
	}
	I["#vGoMode"] = func(fr *Frame, g *Term, args []Value, site ssa.Instruction, fn *ssa.Function) []Value {
		name, _ := strArg(args[0])
		mode, _ := strArg(args[1])
		if in.goModes == nil {
			in.goModes = map[string]string{}
		}
		in.goModes[name] = mode
		return nil
	}
	I["#goinvoke"] = func(fr *Frame, g *Term, args []Value, site ssa.Instruction, fn *ssa.Function) []Value {
		recv := args[0].(*IfaceVal)
		m := args[1].(*methodBox).M
		return in.invoke(fr, g, recv, m, args[2:], site)
	}
	I["#vInTask"] = func(fr *Frame, g *Term, args []Value, site ssa.Instruction, fn *ssa.Function) []Value {
		return []Value{mkBool(in.inTask)}
	}
	// vRunTask(j): run the j-th forked call (fork order) now, if it is still pending
	I["#vRunTask"] = func(fr *Frame, g *Term, args []Value, site ssa.Instruction, fn *ssa.Function) []Value {
		j, ok := args[0].(*Term)
		if !ok || !j.IsConst() {
			in.unsupported(g, "vRunTask needs a concrete index")
			return []Value{tFalse}
		}
		for i := range in.tasks {
			t := &in.tasks[i]
			if t.seq == int(j.val) && !t.done {
				t.done = true
				saved := in.inTask
				in.inTask = true
				in.callFuncVal(fr, mkAnd(g, t.g), t.fv, t.args, nil, site)
				in.inTask = saved
				return []Value{tTrue}
			}
		}
		return []Value{tFalse}
	}
	I["#vPendingTasks"] = func(fr *Frame, g *Term, args []Value, site ssa.Instruction, fn *ssa.Function) []Value {
		n := 0
		for _, t := range in.tasks {
			if !t.done {
				n++
			}
		}
		return []Value{mkConst(64, uint64(n))}
	}
	I["#vRunTasks"] = func(fr *Frame, g *Term, args []Value, site ssa.Instruction, fn *ssa.Function) []Value {
		ts := in.tasks
		in.tasks = nil
		for _, t := range ts {
			in.callFuncVal(fr, mkAnd(g, t.g), t.fv, t.args, nil, site)
		}
		return nil
	}

	// ---- sync
	noop := func(fr *Frame, g *Term, args []Value, site ssa.Instruction, fn *ssa.Function) []Value {
		if fn != nil {
			return in.zeroResults(fn.Signature)
		}
		return nil
	}
	for _, n := range []string{"(*sync.Mutex).Lock", "(*sync.RWMutex).Lock", "(*sync.RWMutex).RLock"} {
		I[n] = func(fr *Frame, g *Term, args []Value, site ssa.Instruction, fn *ssa.Function) []Value {
			in.lockDepth++
			return nil
		}
	}
	for _, n := range []string{"(*sync.Mutex).Unlock", "(*sync.RWMutex).Unlock", "(*sync.RWMutex).RUnlock"} {
		I[n] = func(fr *Frame, g *Term, args []Value, site ssa.Instruction, fn *ssa.Function) []Value {
			if in.lockDepth > 0 {
				in.lockDepth--
			}
			return nil
		}
	}
	// vLocksHeld: does the running code hold a mutex (another goroutine's call cannot be inserted atomically then)
	I["#vLocksHeld"] = func(fr *Frame, g *Term, args []Value, site ssa.Instruction, fn *ssa.Function) []Value {
		if in.lockDepth > 0 {
			return []Value{tTrue}
		}
		return []Value{tFalse}
	}
	// vCompletes(f): natively f runs on a fresh goroutine and must finish within 3 s (false: it hangs); symbolically
	// it is called in place (a blocked path ends there) and the result is true
	I["#vCompletes"] = func(fr *Frame, g *Term, args []Value, site ssa.Instruction, fn *ssa.Function) []Value {
		fv, ok := args[0].(*FuncVal)
		if !ok {
			in.unsupported(g, "vCompletes needs a function value")
			return []Value{tTrue}
		}
		in.callFuncVal(fr, g, fv, nil, nil, site)
		return []Value{tTrue}
	}
	// vJoin(f): natively f runs on a fresh goroutine that is joined; symbolically it is called in place
	I["#vJoin"] = func(fr *Frame, g *Term, args []Value, site ssa.Instruction, fn *ssa.Function) []Value {
		fv, ok := args[0].(*FuncVal)
		if !ok {
			in.unsupported(g, "vJoin needs a function value")
			return nil
		}
		saved := in.lockDepth
		in.lockDepth = 0
		in.callFuncVal(fr, g, fv, nil, nil, site)
		in.lockDepth = saved
		return nil
	}
	for _, n := range []string{
		"runtime.Gosched", "time.Sleep",
		"(*sync.WaitGroup).Add", "(*sync.WaitGroup).Done", "(*sync.WaitGroup).Wait", "runtime.KeepAlive",
		"runtime.SetFinalizer",
	} {
		I[n] = noop
	}
	I["(*sync.Mutex).TryLock"] = func(fr *Frame, g *Term, args []Value, site ssa.Instruction, fn *ssa.Function) []Value {
		return []Value{tTrue}
	}
	I["(*sync.RWMutex).TryLock"] = I["(*sync.Mutex).TryLock"]
	I["(*sync.RWMutex).TryRLock"] = I["(*sync.Mutex).TryLock"]

	// ---- atomics: operate on the last field of the receiver struct
	cell := func(g *Term, args []Value) []PtrAlt {
		p, ok := args[0].(*PtrVal)
		if !ok {
			in.unsupported(g, "atomic op on opaque receiver")
			return nil
		}
		in.abort(mkAnd(g, mkNot(p.nonNil())), "panic", in.curSite, "nil pointer dereference (atomic)")
		out := make([]PtrAlt, 0, len(p.Alts))
		for _, a := range p.Alts {
			l := a.L
			if len(l.kids) > 0 {
				l = l.kids[len(l.kids)-1]
			}
			out = append(out, PtrAlt{a.G, l})
		}
		return out
	}
	loadCell := func(g *Term, args []Value, t types.Type) Value {
		alts := cell(g, args)
		var r Value
		for i := len(alts) - 1; i >= 0; i-- {
			v := in.load(alts[i].L)
			if r == nil {
				r = v
			} else {
				r = in.merge(alts[i].G, v, r)
			}
		}
		if r == nil {
			r = in.zero(t)
		}
		return r
	}
	storeCell := func(g *Term, args []Value, v Value) {
		for _, a := range cell(g, args) {
			// pointer cells are typed unsafe.Pointer: overwrite with whatever pointer-like value arrives
			a.L.val = in.merge(mkAnd(g, a.G), v, a.L.val)
		}
	}
	atomicLoad := func(fr *Frame, g *Term, args []Value, site ssa.Instruction, fn *ssa.Function) []Value {
		rt := fn.Signature.Results().At(0).Type()
		v := loadCell(g, args, rt)
		if w, _, ok := bvWidth(rt); ok && w == 0 {
			if t, ok := v.(*Term); ok && t.w != 0 {
				return []Value{mkNot(mkEq(t, mkConst(t.w, 0)))}
			}
		}
		if _, isPtr := rt.Underlying().(*types.Pointer); isPtr {
			if _, ok := v.(*PtrVal); !ok {
				return []Value{&PtrVal{}}
			}
		}
		return []Value{v}
	}
	toCell := func(v Value, args []Value, g *Term) Value {
		// Bool stores as uint32
		if t, ok := v.(*Term); ok && t.w == 0 {
			alts := cell(g, args)
			if len(alts) > 0 {
				if cur, ok := alts[0].L.val.(*Term); ok && cur.w != 0 {
					return mkIte(t, mkConst(cur.w, 1), mkConst(cur.w, 0))
				}
			}
		}
		return v
	}
	atomicStore := func(fr *Frame, g *Term, args []Value, site ssa.Instruction, fn *ssa.Function) []Value {
		storeCell(g, args, toCell(args[1], args, g))
		return nil
	}
	atomicSwap := func(fr *Frame, g *Term, args []Value, site ssa.Instruction, fn *ssa.Function) []Value {
		old := atomicLoad(fr, g, args, site, fn)
		storeCell(g, args, toCell(args[1], args, g))
		return old
	}
	atomicCAS := func(fr *Frame, g *Term, args []Value, site ssa.Instruction, fn *ssa.Function) []Value {
		oldv := toCell(args[1], args, g)
		newv := toCell(args[2], args, g)
		res := tFalse
		for _, a := range cell(g, args) {
			cur := a.L.val
			if _, isPtr := oldv.(*PtrVal); isPtr {
				if _, ok := cur.(*PtrVal); !ok {
					cur = &PtrVal{}
				}
			}
			e := in.eq(cur, oldv)
			a.L.val = in.merge(mkAnd(g, a.G, e), newv, a.L.val)
			res = mkIte(a.G, e, res)
		}
		return []Value{res}
	}
	atomicAdd := func(fr *Frame, g *Term, args []Value, site ssa.Instruction, fn *ssa.Function) []Value {
		cur := loadCell(g, args, fn.Signature.Results().At(0).Type())
		ct, ok1 := cur.(*Term)
		d, ok2 := args[1].(*Term)
		if !ok1 || !ok2 {
			in.unsupported(g, "atomic add on opaque")
			return []Value{&Opaque{"atomic add"}}
		}
		nv := mkBin(OpAdd, ct, d)
		storeCell(g, args, nv)
		return []Value{nv}
	}
	for _, ty := range []string{"Bool", "Int32", "Int64", "Uint32", "Uint64", "Uintptr", "Value", "Pointer[T]"} {
		p := "(*sync/atomic." + ty + ")."
		I[p+"Load"] = atomicLoad
		I[p+"Store"] = atomicStore
		I[p+"Swap"] = atomicSwap
		I[p+"CompareAndSwap"] = atomicCAS
		I[p+"Add"] = atomicAdd
	}
	// package-level atomics on plain addresses
	plainCell := func(args []Value) []Value { return args }
	_ = plainCell
	for _, suffix := range []string{"Int32", "Int64", "Uint32", "Uint64", "Uintptr", "Pointer"} {
		sfx := suffix
		I["sync/atomic.Load"+sfx] = func(fr *Frame, g *Term, args []Value, site ssa.Instruction, fn *ssa.Function) []Value {
			p, ok := args[0].(*PtrVal)
			if !ok {
				in.unsupported(g, "atomic.Load"+sfx+" on opaque")
				return in.opaqueResults(fn.Signature, "atomic")
			}
			return []Value{in.loadPtr(g, p, fn.Signature.Results().At(0).Type())}
		}
		I["sync/atomic.Store"+sfx] = func(fr *Frame, g *Term, args []Value, site ssa.Instruction, fn *ssa.Function) []Value {
			p, ok := args[0].(*PtrVal)
			if !ok {
				in.unsupported(g, "atomic.Store"+sfx+" on opaque")
				return nil
			}
			for _, a := range p.Alts {
				in.store(a.L, mkAnd(g, a.G), args[1])
			}
			return nil
		}
		I["sync/atomic.Add"+sfx] = func(fr *Frame, g *Term, args []Value, site ssa.Instruction, fn *ssa.Function) []Value {
			p, ok := args[0].(*PtrVal)
			if !ok {
				in.unsupported(g, "atomic.Add"+sfx+" on opaque")
				return in.opaqueResults(fn.Signature, "atomic")
			}
			cur := in.loadPtr(g, p, fn.Signature.Results().At(0).Type()).(*Term)
			nv := mkBin(OpAdd, cur, args[1].(*Term))
			for _, a := range p.Alts {
				in.store(a.L, mkAnd(g, a.G), nv)
			}
			return []Value{nv}
		}
		I["sync/atomic.CompareAndSwap"+sfx] = func(fr *Frame, g *Term, args []Value, site ssa.Instruction, fn *ssa.Function) []Value {
			p, ok := args[0].(*PtrVal)
			if !ok {
				in.unsupported(g, "atomic.CAS on opaque")
				return []Value{tFalse}
			}
			res := tFalse
			for _, a := range p.Alts {
				e := in.eq(in.load(a.L), args[1])
				in.store(a.L, mkAnd(g, a.G, e), args[2])
				res = mkIte(a.G, e, res)
			}
			return []Value{res}
		}
	}

	// ---- time
	I["time.Now"] = func(fr *Frame, g *Term, args []Value, site ssa.Instruction, fn *ssa.Function) []Value {
		return []Value{&TupleVal{Elems: []Value{in.fresh("env", "now_wall", 64, g), in.fresh("env", "now_ext", 64, g), &PtrVal{}}}}
	}
	I["time.Since"] = func(fr *Frame, g *Term, args []Value, site ssa.Instruction, fn *ssa.Function) []Value {
		// one symbolic, non-negative duration per run: wall-clock time does not advance during a run
		if in.sinceVar == nil {
			in.sinceVar = in.fresh("env", "since", 64, tTrue)
			in.addAssume(tTrue, mkCmp(OpSle, mkConst(64, 0), in.sinceVar))
		}
		return []Value{in.sinceVar}
	}
	I["time.Until"] = I["time.Since"]
	I["time.After"] = func(fr *Frame, g *Term, args []Value, site ssa.Instruction, fn *ssa.Function) []Value {
		c := in.newChan(fn.Signature.Results().At(0).Type().Underlying().(*types.Chan).Elem(), 1)
		c.Name = "time.After"
		c.EnvReady = in.timerFires(g)
		return []Value{&ChanVal{Alts: []ChanAlt{{tTrue, c}}}}
	}
	I["time.NewTimer"] = func(fr *Frame, g *Term, args []Value, site ssa.Instruction, fn *ssa.Function) []Value {
		tt := fn.Signature.Results().At(0).Type().(*types.Pointer).Elem()
		l := in.newLoc(tt, "timer")
		st := tt.Underlying().(*types.Struct)
		for i := 0; i < st.NumFields(); i++ {
			if st.Field(i).Name() == "C" {
				c := in.newChan(st.Field(i).Type().Underlying().(*types.Chan).Elem(), 1)
				c.Name = "timer.C"
				c.EnvReady = in.timerFires(g)
				l.kids[i].val = &ChanVal{Alts: []ChanAlt{{tTrue, c}}}
			}
		}
		return []Value{ptrTo(l)}
	}
	I["time.NewTicker"] = I["time.NewTimer"]
	I["(*time.Timer).Stop"] = func(fr *Frame, g *Term, args []Value, site ssa.Instruction, fn *ssa.Function) []Value {
		return []Value{in.fresh("env", "timer_stop", 0, g)}
	}
	I["(*time.Timer).Reset"] = I["(*time.Timer).Stop"]
	I["(*time.Ticker).Stop"] = noop
	I["(*time.Ticker).Reset"] = noop

	// ---- errors / fmt
	I["errors.New"] = func(fr *Frame, g *Term, args []Value, site ssa.Instruction, fn *ssa.Function) []Value {
		msg, _ := args[0].(*StrVal)
		if msg == nil {
			msg = strConst("")
		}
		return []Value{in.newError(msg)}
	}
	I["fmt.Errorf"] = func(fr *Frame, g *Term, args []Value, site ssa.Instruction, fn *ssa.Function) []Value {
		return []Value{in.newError(opaqueStr("Errorf"))}
	}
	opaqueStrFn := func(fr *Frame, g *Term, args []Value, site ssa.Instruction, fn *ssa.Function) []Value {
		return in.opaqueResults(fn.Signature, fnKey(fn))
	}
	for _, n := range []string{"fmt.Sprintf", "fmt.Sprint", "fmt.Sprintln", "runtime/debug.Stack", "encoding/hex.EncodeToString"} {
		I[n] = opaqueStrFn
	}
	for _, n := range []string{"fmt.Println", "fmt.Printf", "fmt.Print", "fmt.Fprintf", "fmt.Fprintln", "fmt.Fprint",
		"log.Printf", "log.Println", "log.Print", "(*log.Logger).Printf", "(*log.Logger).Println", "(*os.File).WriteString", "(*os.File).Write"} {
		I[n] = func(fr *Frame, g *Term, args []Value, site ssa.Instruction, fn *ssa.Function) []Value {
			return in.opaqueResults(fn.Signature, "io")
		}
	}
	I["errors.Is"] = func(fr *Frame, g *Term, args []Value, site ssa.Instruction, fn *ssa.Function) []Value {
		a, ok1 := args[0].(*IfaceVal)
		b, ok2 := args[1].(*IfaceVal)
		if ok1 && ok2 {
			if len(a.Alts) == 0 {
				return []Value{tFalse}
			}
			return []Value{in.eq(a, b)} // identity only (no unwrap chains)
		}
		return []Value{&Opaque{"errors.Is"}}
	}
	I["errors.Join"] = func(fr *Frame, g *Term, args []Value, site ssa.Instruction, fn *ssa.Function) []Value {
		return []Value{in.newError(opaqueStr("Join"))}
	}
	I["os.Getenv"] = func(fr *Frame, g *Term, args []Value, site ssa.Instruction, fn *ssa.Function) []Value {
		return []Value{strConst("")}
	}
	I["runtime.Stack"] = func(fr *Frame, g *Term, args []Value, site ssa.Instruction, fn *ssa.Function) []Value {
		return []Value{mkConst(64, 0)}
	}
	I["crypto/rand.Read"] = func(fr *Frame, g *Term, args []Value, site ssa.Instruction, fn *ssa.Function) []Value {
		return []Value{mkConst(64, 0), &IfaceVal{}}
	}

	// ---- strings
	str1 := func(f func(a string) string) Intrinsic {
		return func(fr *Frame, g *Term, args []Value, site ssa.Instruction, fn *ssa.Function) []Value {
			a, ok := args[0].(*StrVal)
			if !ok {
				return in.opaqueResults(fn.Signature, "string fn on opaque")
			}
			var alts []StrAlt
			for _, p := range a.Alts() {
				if p.Opq {
					alts = append(alts, p)
					continue
				}
				alts = append(alts, StrAlt{p.G, f(p.S), false})
			}
			return []Value{normStr(alts)}
		}
	}
	str2 := func(f func(a, b string) string) Intrinsic {
		return func(fr *Frame, g *Term, args []Value, site ssa.Instruction, fn *ssa.Function) []Value {
			a, ok1 := args[0].(*StrVal)
			b, ok2 := args[1].(*StrVal)
			if !ok1 || !ok2 {
				return in.opaqueResults(fn.Signature, "string fn on opaque")
			}
			var alts []StrAlt
			bAlts := b.Alts()
			for _, p := range a.Alts() {
				for _, q := range bAlts {
					gg := mkAnd(p.G, q.G)
					if gg.IsFalse() {
						continue
					}
					if p.Opq || q.Opq {
						alts = append(alts, StrAlt{gg, "\x00opaque:strfn", true})
						continue
					}
					alts = append(alts, StrAlt{gg, f(p.S, q.S), false})
				}
			}
			return []Value{normStr(alts)}
		}
	}
	pred2 := func(f func(a, b string) bool) Intrinsic {
		return func(fr *Frame, g *Term, args []Value, site ssa.Instruction, fn *ssa.Function) []Value {
			a, ok1 := args[0].(*StrVal)
			b, ok2 := args[1].(*StrVal)
			if !ok1 || !ok2 {
				return []Value{&Opaque{"string pred on opaque"}}
			}
			var gs []*Term
			bAlts := b.Alts()
			for _, p := range a.Alts() {
				for _, q := range bAlts {
					gg := mkAnd(p.G, q.G)
					if gg.IsFalse() {
						continue
					}
					if p.Opq || q.Opq {
						in.unsupported(mkAnd(g, gg), "string predicate on opaque string")
						continue
					}
					if f(p.S, q.S) {
						gs = append(gs, gg)
					}
				}
			}
			return []Value{mkOr(gs...)}
		}
	}
	int2 := func(f func(a, b string) int) Intrinsic {
		return func(fr *Frame, g *Term, args []Value, site ssa.Instruction, fn *ssa.Function) []Value {
			a, ok1 := args[0].(*StrVal)
			b, ok2 := args[1].(*StrVal)
			if !ok1 || !ok2 {
				return []Value{&Opaque{"string fn on opaque"}}
			}
			var r *Term = mkConst(64, 0)
			bAlts := b.Alts()
			for _, p := range a.Alts() {
				for _, q := range bAlts {
					gg := mkAnd(p.G, q.G)
					if gg.IsFalse() {
						continue
					}
					if p.Opq || q.Opq {
						in.unsupported(mkAnd(g, gg), "string fn on opaque string")
						continue
					}
					r = mkIte(gg, mkConst(64, uint64(int64(f(p.S, q.S)))), r)
				}
			}
			return []Value{r}
		}
	}
	I["strings.HasPrefix"] = pred2(strings.HasPrefix)
	I["strings.HasSuffix"] = pred2(strings.HasSuffix)
	I["strings.Contains"] = pred2(strings.Contains)
	I["strings.EqualFold"] = pred2(strings.EqualFold)
	I["strings.TrimPrefix"] = str2(strings.TrimPrefix)
	I["strings.TrimSuffix"] = str2(strings.TrimSuffix)
	I["strings.Trim"] = str2(strings.Trim)
	I["strings.TrimLeft"] = str2(strings.TrimLeft)
	I["strings.TrimRight"] = str2(strings.TrimRight)
	I["strings.Index"] = int2(strings.Index)
	I["strings.LastIndex"] = int2(strings.LastIndex)
	I["strings.Count"] = int2(strings.Count)
	I["strings.Compare"] = int2(strings.Compare)
	I["strings.ToLower"] = str1(strings.ToLower)
	I["strings.ToUpper"] = str1(strings.ToUpper)
	I["strings.TrimSpace"] = str1(strings.TrimSpace)
	I["strings.Title"] = str1(strings.Title)
	I["strings.CutSuffix"] = func(fr *Frame, g *Term, args []Value, site ssa.Instruction, fn *ssa.Function) []Value {
		r := str2(strings.TrimSuffix)(fr, g, args, site, fn)
		p := pred2(strings.HasSuffix)(fr, g, args, site, fn)
		return []Value{r[0], p[0]}
	}
	I["strings.CutPrefix"] = func(fr *Frame, g *Term, args []Value, site ssa.Instruction, fn *ssa.Function) []Value {
		r := str2(strings.TrimPrefix)(fr, g, args, site, fn)
		p := pred2(strings.HasPrefix)(fr, g, args, site, fn)
		return []Value{r[0], p[0]}
	}
	I["strings.ReplaceAll"] = func(fr *Frame, g *Term, args []Value, site ssa.Instruction, fn *ssa.Function) []Value {
		o, ok1 := strArg(args[1])
		n, ok2 := strArg(args[2])
		if !ok1 || !ok2 {
			return in.opaqueResults(fn.Signature, "ReplaceAll")
		}
		return str1(func(s string) string { return strings.ReplaceAll(s, o, n) })(fr, g, args, site, fn)
	}
	I["strings.Repeat"] = func(fr *Frame, g *Term, args []Value, site ssa.Instruction, fn *ssa.Function) []Value {
		n, ok := args[1].(*Term)
		if !ok || !n.IsConst() {
			return in.opaqueResults(fn.Signature, "Repeat")
		}
		return str1(func(s string) string { return strings.Repeat(s, int(n.val)) })(fr, g, args, site, fn)
	}
	I["strings.Join"] = func(fr *Frame, g *Term, args []Value, site ssa.Instruction, fn *ssa.Function) []Value {
		sl, ok := args[0].(*SliceVal)
		sep, ok2 := strArg(args[1])
		if ok && ok2 {
			if len(sl.Alts) == 0 {
				return []Value{strConst("")}
			}
			if len(sl.Alts) == 1 && sl.Alts[0].G.IsTrue() && sl.Alts[0].Len.IsConst() {
				a := sl.Alts[0]
				parts := make([]string, 0, a.Len.val)
				all := true
				for k := 0; k < int(a.Len.val); k++ {
					s, ok := strArg(a.Arr.kids[a.Off+k].val)
					if !ok {
						all = false
						break
					}
					parts = append(parts, s)
				}
				if all {
					return []Value{strConst(strings.Join(parts, sep))}
				}
			}
		}
		return in.opaqueResults(fn.Signature, "Join")
	}
	I["strings.Split"] = func(fr *Frame, g *Term, args []Value, site ssa.Instruction, fn *ssa.Function) []Value {
		s, ok1 := strArg(args[0])
		sep, ok2 := strArg(args[1])
		if !ok1 || !ok2 {
			in.unsupported(g, "strings.Split on symbolic string")
			return []Value{&SliceVal{}}
		}
		parts := strings.Split(s, sep)
		arr := in.newArray(types.Typ[types.String], len(parts))
		for i, p := range parts {
			arr.kids[i].val = strConst(p)
		}
		n := mkConst(64, uint64(len(parts)))
		return []Value{&SliceVal{Alts: []SliceAlt{{tTrue, arr, 0, n, n}}}}
	}
	I["strconv.Itoa"] = func(fr *Frame, g *Term, args []Value, site ssa.Instruction, fn *ssa.Function) []Value {
		t, ok := args[0].(*Term)
		if ok && t.IsConst() {
			return []Value{strConst(strconv.Itoa(int(int64(t.val))))}
		}
		if ok && t.leaves > 0 && t.leaves <= 16 {
			var alts []StrAlt
			for _, ka := range keyAlts(t) {
				alts = append(alts, StrAlt{ka.G, strconv.Itoa(int(int64(ka.K.(*Term).val))), false})
			}
			return []Value{normStr(alts)}
		}
		return in.opaqueResults(fn.Signature, "Itoa")
	}

	// ---- sort: run the real algorithms with a native swapper
	I["#swapper"] = func(fr *Frame, g *Term, args []Value, site ssa.Instruction, fn *ssa.Function) []Value {
		sl := args[0].(*SliceVal)
		et := args[1].(*typeBox).T
		i, j := toIdx(args[2]), toIdx(args[3])
		vi := in.sliceLoad(sl, i, et)
		vj := in.sliceLoad(sl, j, et)
		in.sliceStore(g, sl, i, vj)
		in.sliceStore(g, sl, j, vi)
		return nil
	}
	sortVia := func(algo string) Intrinsic {
		return func(fr *Frame, g *Term, args []Value, site ssa.Instruction, fn *ssa.Function) []Value {
			iv, ok := args[0].(*IfaceVal)
			if !ok || len(iv.Alts) != 1 {
				in.unsupported(g, "sort.Slice on opaque/union interface")
				return nil
			}
			sl, ok := iv.Alts[0].V.(*SliceVal)
			if !ok {
				in.unsupported(g, "sort.Slice on non-slice")
				return nil
			}
			et := iv.Alts[0].T.Underlying().(*types.Slice).Elem()
			swap := &FuncVal{Alts: []FuncAlt{{G: tTrue, Native: "#swapper", NatArg: []Value{sl, &typeBox{et}}}}}
			ls := &TupleVal{Elems: []Value{args[1], swap}}
			pkg := fn.Pkg
			n := sl.length()
			switch algo {
			case "stable":
				f := pkg.Func("stable_func")
				in.callFn(fr, f, []Value{ls, n}, nil, g, site)
			case "pdq":
				f := pkg.Func("pdqsort_func")
				// limit := bits.Len(uint(length))
				limit := mkConst(64, 0)
				for b := 63; b >= 0; b-- {
					limit = mkIte(mkCmp(OpUle, mkConst(64, uint64(1)<<uint(b)), n), mkConst(64, uint64(b+1)), limit)
					if uint64(1)<<uint(b) <= n.lo {
						break
					}
				}
				// build bottom-up: the loop above overrides higher bits last; recompute properly
				limit = mkConst(64, 0)
				for b := 0; b < 64; b++ {
					if uint64(1)<<uint(b) > n.hi {
						break
					}
					limit = mkIte(mkCmp(OpUle, mkConst(64, uint64(1)<<uint(b)), n), mkConst(64, uint64(b+1)), limit)
				}
				in.callFn(fr, f, []Value{ls, mkConst(64, 0), n, limit}, nil, g, site)
			}
			return nil
		}
	}
	I["sort.SliceStable"] = sortVia("stable")
	I["sort.Slice"] = sortVia("pdq")

	// ---- package slices: loop-free summaries of the pure helpers
	sliceArg := func(g *Term, v Value) (*SliceVal, bool) {
		sl, ok := v.(*SliceVal)
		if !ok {
			in.unsupported(g, "slices helper on opaque slice")
		}
		return sl, ok
	}
	elemType := func(fn *ssa.Function) types.Type {
		return fn.Signature.Params().At(0).Type().Underlying().(*types.Slice).Elem()
	}
	indexOf := func(fr *Frame, g *Term, args []Value, site ssa.Instruction, fn *ssa.Function) *Term {
		sl, ok := sliceArg(g, args[0])
		if !ok {
			return mkConst(64, ^uint64(0))
		}
		et := elemType(fn)
		res := mkConst(64, ^uint64(0))
		for ai := len(sl.Alts) - 1; ai >= 0; ai-- {
			a := sl.Alts[ai]
			n := int(min(a.Len.hi, uint64(len(a.Arr.kids)-a.Off)))
			r := mkConst(64, ^uint64(0))
			for k := n - 1; k >= 0; k-- {
				inb := mkCmp(OpUlt, mkConst(64, uint64(k)), a.Len)
				if inb.IsFalse() {
					continue
				}
				e := in.eq(in.load(a.Arr.kids[a.Off+k]), args[1])
				r = mkIte(mkAnd(inb, e), mkConst(64, uint64(k)), r)
			}
			res = mkIte(a.G, r, res)
			_ = et
		}
		return res
	}
	I["slices.Index"] = func(fr *Frame, g *Term, args []Value, site ssa.Instruction, fn *ssa.Function) []Value {
		return []Value{indexOf(fr, g, args, site, fn)}
	}
	I["slices.Contains"] = func(fr *Frame, g *Term, args []Value, site ssa.Instruction, fn *ssa.Function) []Value {
		return []Value{mkNot(mkEq(indexOf(fr, g, args, site, fn), mkConst(64, ^uint64(0))))}
	}
	I["slices.Clone"] = func(fr *Frame, g *Term, args []Value, site ssa.Instruction, fn *ssa.Function) []Value {
		sl, ok := sliceArg(g, args[0])
		if !ok {
			return []Value{&SliceVal{}}
		}
		et := elemType(fn)
		var alts []SliceAlt
		for _, a := range sl.Alts {
			// Clone preserves nil-ness; a non-nil source yields a fresh array with cap == len (tight)
			n := int(min(a.Len.hi, uint64(len(a.Arr.kids)-a.Off)))
			arr := in.newArray(et, n)
			for k := 0; k < n; k++ {
				in.storeInit(arr.kids[k], in.load(a.Arr.kids[a.Off+k]))
			}
			alts = append(alts, SliceAlt{a.G, arr, 0, a.Len, a.Len})
		}
		return []Value{&SliceVal{Alts: alts}}
	}

	I["slices.Delete"] = func(fr *Frame, g *Term, args []Value, site ssa.Instruction, fn *ssa.Function) []Value {
		sl, ok := sliceArg(g, args[0])
		if !ok {
			return []Value{&SliceVal{}}
		}
		i, j := toIdx(args[1]), toIdx(args[2])
		if i == nil || j == nil {
			in.unsupported(g, "slices.Delete with opaque bounds")
			return []Value{sl}
		}
		et := elemType(fn)
		d := mkBin(OpSub, j, i)
		okAll := mkAnd(mkNot(sl.nonNil()), mkEq(i, mkConst(64, 0)), mkEq(j, mkConst(64, 0)))
		var alts []SliceAlt
		for _, a := range sl.Alts {
			okAll = mkOr(okAll, mkAnd(a.G, mkCmp(OpUle, i, j), mkCmp(OpUle, j, a.Len)))
			n := int(min(a.Len.hi, uint64(len(a.Arr.kids)-a.Off)))
			one := &SliceVal{Alts: []SliceAlt{{tTrue, a.Arr, a.Off, a.Len, a.Cap}}}
			newLen := mkBin(OpSub, a.Len, d)
			// compute all new cell values first (reads before writes)
			vals := make([]Value, n)
			for k := 0; k < n; k++ {
				kc := mkConst(64, uint64(k))
				src := mkBin(OpAdd, kc, d)
				moved := in.sliceLoad(one, src, et)
				keep := in.load(a.Arr.kids[a.Off+k])
				v := in.merge(mkCmp(OpUlt, kc, i), keep, in.merge(mkCmp(OpUlt, src, a.Len), moved, in.zero(et)))
				// cells at or beyond the old length are untouched
				vals[k] = in.merge(mkCmp(OpUlt, kc, a.Len), v, keep)
			}
			ga := mkAnd(g, a.G)
			for k := 0; k < n; k++ {
				in.store(a.Arr.kids[a.Off+k], ga, vals[k])
			}
			alts = append(alts, SliceAlt{a.G, a.Arr, a.Off, newLen, a.Cap})
		}
		in.abort(mkAnd(g, mkNot(okAll)), "panic", in.curSite, "slice bounds out of range (slices.Delete)")
		return []Value{&SliceVal{Alts: alts}}
	}

	fmax := func(isMax bool) Intrinsic {
		return func(fr *Frame, g *Term, args []Value, site ssa.Instruction, fn *ssa.Function) []Value {
			a, ok1 := args[0].(*FloatInt)
			b, ok2 := args[1].(*FloatInt)
			if !ok1 || !ok2 {
				return []Value{&Opaque{"math.Max on non-integral floats"}}
			}
			less := mkCmp(OpSlt, a.T, b.T)
			if isMax {
				return []Value{&FloatInt{mkIte(less, b.T, a.T)}}
			}
			return []Value{&FloatInt{mkIte(less, a.T, b.T)}}
		}
	}
	I["math.Max"] = fmax(true)
	I["math.Min"] = fmax(false)

	I["maps.Clone"] = func(fr *Frame, g *Term, args []Value, site ssa.Instruction, fn *ssa.Function) []Value {
		m, ok := args[0].(*MapVal)
		if !ok {
			in.unsupported(g, "maps.Clone of opaque")
			return []Value{&MapVal{}}
		}
		out := make([]MapAlt, 0, len(m.Alts))
		for _, a := range m.Alts {
			c := in.newMap(a.M.KT, a.M.VT)
			for _, e := range a.M.Entries {
				ne := *e
				c.Entries = append(c.Entries, &ne)
			}
			out = append(out, MapAlt{a.G, c})
		}
		return []Value{&MapVal{Alts: out}}
	}
	I["maps.Copy"] = func(fr *Frame, g *Term, args []Value, site ssa.Instruction, fn *ssa.Function) []Value {
		dst, ok1 := args[0].(*MapVal)
		src, ok2 := args[1].(*MapVal)
		if !ok1 || !ok2 {
			in.unsupported(g, "maps.Copy of opaque")
			return nil
		}
		in.abort(mkAnd(g, mkNot(dst.nonNil()), src.nonNil()), "panic", in.curSite, "assignment to entry in nil map (maps.Copy)")
		for _, sa := range src.Alts {
			for _, e := range sa.M.Entries {
				for _, da := range dst.Alts {
					in.mapStore(da.M, mkAnd(g, sa.G, da.G, e.Present), e.Key, e.Val)
				}
			}
		}
		return nil
	}

	// the loop-free summaries of package slices are opt-in: by default the real stdlib code runs
	if os.Getenv("VERIF_SLICES_INTRINSICS") == "" {
		for _, n := range []string{"slices.Index", "slices.Contains", "slices.Clone", "slices.Delete"} {
			delete(I, n)
		}
	}
	registerContext(in)
}

type typeBox struct{ T types.Type }

func (in *Interp) timerFires(g *Term) *Term {
	if in.timersNeverFire {
		return tFalse
	}
	return in.fresh("env", "timer_fires", 0, g)
}

func (in *Interp) sliceStore(g *Term, s *SliceVal, idx *Term, v Value) {
	for _, a := range s.Alts {
		n := len(a.Arr.kids) - a.Off
		if a.Len.hi < uint64(n) {
			n = int(a.Len.hi)
		}
		for _, pa := range in.elemAddrs(mkAnd(g, a.G), a.Arr, a.Off, idx, n) {
			in.store(pa.L, pa.G, v)
		}
	}
}
