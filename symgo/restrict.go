package main

// Guard-aware simplification: restrict(t, g) is equivalent to t whenever g holds.

type restrictor struct {
	known  map[*Term]bool // term -> truth value implied by the guard
	memo   map[*Term]*Term
	budget int
}

func newRestrictor(g *Term, budget int) *restrictor {
	r := &restrictor{known: map[*Term]bool{}, memo: map[*Term]*Term{}, budget: budget}
	r.learn(g)
	return r
}

func (r *restrictor) learn(g *Term) {
	for _, c := range conjuncts(g) {
		if c.op == OpConst {
			continue
		}
		r.known[c] = true
		if c.op == OpNot {
			r.known[c.args[0]] = false
		} else if c.neg != nil {
			r.known[c.neg] = false
		}
		// a true disjunction tells nothing about its members; a false one (neg of and) is covered by NNF
	}
}

func (r *restrictor) term(t *Term) *Term {
	if len(r.known) == 0 || t.op == OpConst || t.op == OpVar && t.w != 0 {
		return t
	}
	if v, ok := r.known[t]; ok && t.w == 0 {
		return mkBool(v)
	}
	if t.op == OpVar {
		return t
	}
	if m, ok := r.memo[t]; ok {
		return m
	}
	if r.budget <= 0 {
		return t
	}
	r.budget--
	var out *Term
	switch t.op {
	case OpNot:
		out = mkNot(r.term(t.args[0]))
	case OpAnd, OpOr:
		args := make([]*Term, len(t.args))
		changed := false
		for i, a := range t.args {
			args[i] = r.term(a)
			if args[i] != a {
				changed = true
			}
		}
		if !changed {
			out = t
		} else if t.op == OpAnd {
			out = mkAnd(args...)
		} else {
			out = mkOr(args...)
		}
	case OpIte:
		c := r.term(t.args[0])
		if c.IsTrue() {
			out = r.term(t.args[1])
		} else if c.IsFalse() {
			out = r.term(t.args[2])
		} else {
			a, b := r.term(t.args[1]), r.term(t.args[2])
			if c == t.args[0] && a == t.args[1] && b == t.args[2] {
				out = t
			} else {
				out = mkIte(c, a, b)
			}
		}
	case OpEq:
		a, b := r.term(t.args[0]), r.term(t.args[1])
		if a == t.args[0] && b == t.args[1] {
			out = t
		} else {
			out = mkEq(a, b)
		}
	case OpUlt, OpUle, OpSlt, OpSle:
		a, b := r.term(t.args[0]), r.term(t.args[1])
		if a == t.args[0] && b == t.args[1] {
			out = t
		} else {
			out = mkCmp(t.op, a, b)
		}
	case OpBNot, OpNeg:
		a := r.term(t.args[0])
		if a == t.args[0] {
			out = t
		} else {
			out = mkUn(t.op, a)
		}
	case OpExtract:
		a := r.term(t.args[0])
		if a == t.args[0] {
			out = t
		} else {
			out = mkExtract(a, uint8(t.val>>8), uint8(t.val&0xff))
		}
	case OpZExt:
		a := r.term(t.args[0])
		if a == t.args[0] {
			out = t
		} else {
			out = mkZExt(a, t.w)
		}
	case OpSExt:
		a := r.term(t.args[0])
		if a == t.args[0] {
			out = t
		} else {
			out = mkSExt(a, t.w)
		}
	default:
		a, b := r.term(t.args[0]), r.term(t.args[1])
		if a == t.args[0] && b == t.args[1] {
			out = t
		} else {
			out = mkBin(t.op, a, b)
		}
	}
	r.memo[t] = out
	return out
}

func (r *restrictor) value(in *Interp, v Value) Value {
	if len(r.known) == 0 {
		return v
	}
	switch x := v.(type) {
	case *Term:
		return r.term(x)
	case *StrVal:
		c := r.term(x.Code)
		if c == x.Code {
			return x
		}
		return (&StrVal{Code: c, Dom: x.Dom}).tighten()
	case *PtrVal:
		if len(x.Alts) == 0 || len(x.Alts) == 1 && x.Alts[0].G.IsTrue() {
			return x
		}
		alts := make([]PtrAlt, 0, len(x.Alts))
		changed := false
		for _, a := range x.Alts {
			g := r.term(a.G)
			if g != a.G {
				changed = true
			}
			if !g.IsFalse() {
				alts = append(alts, PtrAlt{g, a.L})
			}
		}
		if !changed {
			return x
		}
		return &PtrVal{Alts: alts}
	case *SliceVal:
		if len(x.Alts) == 0 {
			return x
		}
		alts := make([]SliceAlt, 0, len(x.Alts))
		changed := false
		for _, a := range x.Alts {
			g := r.term(a.G)
			if g.IsFalse() {
				changed = true
				continue
			}
			l, c := r.term(a.Len), r.term(a.Cap)
			if g != a.G || l != a.Len || c != a.Cap {
				changed = true
			}
			alts = append(alts, SliceAlt{g, a.Arr, a.Off, l, c})
		}
		if !changed {
			return x
		}
		return &SliceVal{Alts: alts}
	case *MapVal:
		if len(x.Alts) <= 1 && (len(x.Alts) == 0 || x.Alts[0].G.IsTrue()) {
			return x
		}
		alts := make([]MapAlt, 0, len(x.Alts))
		for _, a := range x.Alts {
			if g := r.term(a.G); !g.IsFalse() {
				alts = append(alts, MapAlt{g, a.M})
			}
		}
		return &MapVal{Alts: alts}
	case *ChanVal:
		if len(x.Alts) <= 1 && (len(x.Alts) == 0 || x.Alts[0].G.IsTrue()) {
			return x
		}
		alts := make([]ChanAlt, 0, len(x.Alts))
		for _, a := range x.Alts {
			if g := r.term(a.G); !g.IsFalse() {
				alts = append(alts, ChanAlt{g, a.C})
			}
		}
		return &ChanVal{Alts: alts}
	case *FuncVal:
		if len(x.Alts) <= 1 && (len(x.Alts) == 0 || x.Alts[0].G.IsTrue()) {
			return x
		}
		alts := make([]FuncAlt, 0, len(x.Alts))
		for _, a := range x.Alts {
			if g := r.term(a.G); !g.IsFalse() {
				a.G = g
				alts = append(alts, a)
			}
		}
		return &FuncVal{Alts: alts}
	case *IfaceVal:
		if len(x.Alts) == 0 {
			return x
		}
		alts := make([]IfaceAlt, 0, len(x.Alts))
		changed := false
		for _, a := range x.Alts {
			g := r.term(a.G)
			if g.IsFalse() {
				changed = true
				continue
			}
			nv := a.V
			if a.T != nil {
				nv = r.value(in, a.V)
			}
			if g != a.G || nv != a.V {
				changed = true
			}
			alts = append(alts, IfaceAlt{g, a.T, nv})
		}
		if !changed {
			return x
		}
		return &IfaceVal{Alts: alts}
	case *TupleVal:
		out := make([]Value, len(x.Elems))
		changed := false
		for i, e := range x.Elems {
			out[i] = r.value(in, e)
			if out[i] != e {
				changed = true
			}
		}
		if !changed {
			return x
		}
		return &TupleVal{Elems: out}
	}
	return v
}

func (in *Interp) restrictVal(v Value, g *Term) Value {
	if g.IsTrue() || g.IsFalse() {
		return v
	}
	return newRestrictor(g, 400).value(in, v)
}

func restrictTerm(t *Term, g *Term) *Term {
	if g.IsTrue() || g.IsFalse() || t.op == OpConst {
		return t
	}
	return newRestrictor(g, 400).term(t)
}
