package main

import (
	"encoding/json"
	"flag"
	"fmt"
	"os"
	"path/filepath"
	"regexp"
	"sort"
	"strings"
	"time"

	"golang.org/x/tools/go/packages"
	"golang.org/x/tools/go/ssa"
	"golang.org/x/tools/go/ssa/ssautil"
)

type Loaded struct {
	prog  *ssa.Program
	pkgs  []*ssa.Package
	ppkgs []*packages.Package
}

// loadProgram loads the given package patterns from repoDir with harness overlays.
func loadProgram(repoDir string, patterns []string, overlay map[string][]byte, tags string) (*Loaded, error) {
	cfg := &packages.Config{
		Mode:    packages.LoadAllSyntax,
		Dir:     repoDir,
		Overlay: overlay,
		Env:     append(os.Environ(), "GOFLAGS=-mod=mod", "GOPROXY=off", "GOSUMDB=off", "GOTOOLCHAIN=local"),
	}
	if tags != "" {
		cfg.BuildFlags = []string{"-tags=" + tags}
	}
	pp, err := packages.Load(cfg, patterns...)
	if err != nil {
		return nil, err
	}
	nerr := 0
	packages.Visit(pp, nil, func(p *packages.Package) {
		for _, e := range p.Errors {
			fmt.Fprintf(os.Stderr, "load error: %s: %v\n", p.PkgPath, e)
			nerr++
		}
	})
	if nerr > 0 {
		return nil, fmt.Errorf("%d package load errors", nerr)
	}
	prog, pkgs := ssautil.AllPackages(pp, ssa.InstantiateGenerics)
	prog.Build()
	return &Loaded{prog: prog, pkgs: pkgs, ppkgs: pp}, nil
}

// harnessOverlay maps harness files under harnessRoot/<importpath-rel>/ into the repo tree.
// harnessRoots maps a harness file (relative path) to the root directory it came from.
var harnessRoots = map[string]string{}

func harnessOverlay(repoDir, harnessRootList string) (map[string][]byte, []string, error) {
	ov := map[string][]byte{}
	var files []string
	var err error
	for _, harnessRoot := range strings.Split(harnessRootList, ",") {
		if harnessRoot == "" {
			continue
		}
		var fs []string
		fs, err = harnessOverlay1(repoDir, harnessRoot, ov)
		if err != nil {
			return ov, files, err
		}
		files = append(files, fs...)
	}
	if err == nil {
		err = applyInstrumentation(repoDir, ov)
	}
	return ov, files, err
}

func harnessOverlay1(repoDir, harnessRoot string, ov map[string][]byte) ([]string, error) {
	var files []string
	err := filepath.Walk(harnessRoot, func(p string, info os.FileInfo, err error) error {
		if err != nil || info.IsDir() || !strings.HasSuffix(p, ".go") {
			return err
		}
		if strings.HasSuffix(p, "_test.go") {
			return nil // native replay only
		}
		rel, _ := filepath.Rel(harnessRoot, p)
		data, err := os.ReadFile(p)
		if err != nil {
			return err
		}
		ov[filepath.Join(repoDir, rel)] = data
		files = append(files, rel)
		harnessRoots[rel] = harnessRoot
		rt := filepath.Join(repoDir, filepath.Dir(rel), "zz_verif_rt.go")
		if _, ok := ov[rt]; !ok {
			ov[rt] = []byte(rtSource(packageClause(string(data))))
		}
		return nil
	})
	return files, err
}

type Directives struct {
	Stubs     []string
	Overrides map[string]string
	GoModes   map[string]string
	Unwind    int
	Depth     int
	Panics    string // violation | report | ignore
	Permute   []string
	Mode      string // merge (default) | fork
	MaxPaths  int
	NoTimers  bool
	Init      []string
}

var dirRe = regexp.MustCompile(`(?m)^//verif:(\S+)[ \t]*(.*)$`)

// parseDirectives reads //verif: lines from the doc comment region of a harness function
// (all directives in the file before the function apply when marked "file").
func parseDirectives(src string, fn string) Directives {
	d := Directives{Overrides: map[string]string{}, GoModes: map[string]string{}, Panics: "report"}
	// file-level directives: before the first "func "
	apply := func(text string) {
		for _, m := range dirRe.FindAllStringSubmatch(text, -1) {
			arg := strings.TrimSpace(m[2])
			switch m[1] {
			case "stub":
				d.Stubs = append(d.Stubs, strings.Fields(arg)...)
			case "override":
				f := strings.Fields(arg)
				if len(f) == 2 {
					d.Overrides[f[0]] = f[1]
				}
			case "go":
				f := strings.Fields(arg)
				if len(f) == 2 {
					d.GoModes[f[0]] = f[1]
				}
			case "unwind":
				fmt.Sscanf(arg, "%d", &d.Unwind)
			case "depth":
				fmt.Sscanf(arg, "%d", &d.Depth)
			case "panics":
				d.Panics = arg
			case "permute":
				d.Permute = append(d.Permute, strings.Fields(arg)...)
			case "mode":
				d.Mode = arg
			case "maxpaths":
				fmt.Sscanf(arg, "%d", &d.MaxPaths)
			case "notimers":
				d.NoTimers = true
			case "init":
				d.Init = append(d.Init, strings.Fields(arg)...)
			}
		}
	}
	if i := strings.Index(src, "\nfunc "); i >= 0 {
		apply(src[:i])
	}
	// function-level: comment block immediately preceding "func <fn>("
	if i := strings.Index(src, "\nfunc "+fn+"("); i >= 0 {
		j := i
		for j > 0 {
			k := strings.LastIndex(src[:j], "\n")
			if k < 0 {
				break
			}
			line := src[k+1 : j]
			if !strings.HasPrefix(line, "//") {
				break
			}
			j = k
		}
		apply(src[j : i+1])
	}
	return d
}

func selftest() { runSelftest() }

func resetTerms() {
	termTab = map[termKey]*Term{}
	termList = nil
	TermNodes = 0
	varCount = 0
	tFalse = mk(OpConst, 0, 0, "")
	tTrue = mk(OpConst, 0, 1, "")
}

func main() {
	if len(os.Args) > 2 && os.Args[1] == "discover" {
		os.Setenv("PATH", "/opt/veriftools/go1.26.8/bin:"+os.Getenv("PATH"))
		runDiscover(os.Args[2])
		return
	}
	if len(os.Args) > 1 && os.Args[1] == "selftest" {
		selftest()
		return
	}
	var (
		repo      = flag.String("repo", "/repo", "repository root")
		hroot     = flag.String("harness", "/verif/harness", "harness root (mirrors repo layout)")
		pkgPat    = flag.String("pkg", "", "package pattern(s), comma separated (relative to repo, e.g. ./pkg/rpc)")
		funcs     = flag.String("funcs", "", "regexp selecting harness functions (default ^Verif)")
		timeout   = flag.Int("timeout", 20000, "per-query solver timeout (ms)")
		solverK   = flag.String("solver", "z3-new", "solver: z3 | z3-new | cvc5")
		out       = flag.String("out", "", "write JSON result here")
		cexDir    = flag.String("cex", "", "directory for counterexample files")
		trace     = flag.Bool("trace", false, "trace calls and aborts")
		prop      = flag.String("prop", "", "property id (for reporting)")
		tier      = flag.String("tier", "quick", "tier: quick | thorough")
		concrete  = flag.Int64("concrete", -1, "translator validation: run concretely with this seed")
		nconc     = flag.Int("nconcrete", 0, "translator validation: number of concrete inputs")
		dumpDir   = flag.String("dump", "", "dump standalone .smt2 files of verdict queries here")
		crossChk  = flag.String("cross", "", "comma separated solvers to re-decide dumped verdict queries")
		tags      = flag.String("tags", "", "build tags")
		smtlog    = flag.String("smtlog", "", "log solver input to this file")
		knownFile = flag.String("known", "/verif/known_findings.json", "known findings file")
		noReplay  = flag.Bool("noreplay", false, "do not replay counterexamples natively")
		params    = flag.String("params", "", "harness parameters k=v,k=v (exposed through vParam)")
		replayF   = flag.String("replayfile", "", "replay this counterexample file natively and print the harness output")
		unitsFile = flag.String("units", "", "JSON file with a list of {funcs, params} units to run in this process")
	)
	flag.Parse()
	if _, err := os.Stat("/opt/veriftools/go1.26.8/bin/go"); err == nil {
		os.Setenv("PATH", "/opt/veriftools/go1.26.8/bin:"+os.Getenv("PATH"))
	}
	os.Setenv("GOTOOLCHAIN", "local")
	os.Setenv("GOFLAGS", "-mod=mod")
	os.Setenv("GOPROXY", "off")
	os.Setenv("GOSUMDB", "off")
	_ = concrete
	_ = nconc
	start := time.Now()
	if *replayF != "" {
		var cf cexFile
		data, err := os.ReadFile(*replayF)
		if err == nil {
			err = json.Unmarshal(data, &cf)
		}
		if err != nil {
			fmt.Fprintln(os.Stderr, "replay:", err)
			os.Exit(2)
		}
		_, files, _ := harnessOverlay(*repo, *hroot)
		r := &Run{Repo: *repo, HarnessRoot: *hroot, HarnessFiles: files, Tags: *tags}
		abs, _ := filepath.Abs(*replayF)
		out, _ := r.nativeRun(cf.Package, cf.Harness, abs)
		fmt.Println(out)
		v := r.replayVerdict(out, cf)
		fmt.Println(v)
		if v == "REPRODUCED" {
			os.Exit(1)
		}
		os.Exit(0)
	}
	ov, files, err := harnessOverlay(*repo, *hroot)
	if err != nil {
		fmt.Fprintln(os.Stderr, "overlay:", err)
		os.Exit(2)
	}
	pats := strings.Split(*pkgPat, ",")
	ld, err := loadProgram(*repo, pats, ov, *tags)
	if err != nil {
		fmt.Fprintln(os.Stderr, "load:", err)
		os.Exit(2)
	}
	loadT := time.Since(start)
	re := regexp.MustCompile("^Verif")
	if *funcs != "" {
		re = regexp.MustCompile(*funcs)
	}
	run := &Run{
		Prop: *prop, Tier: *tier, Repo: *repo, HarnessRoot: *hroot, HarnessFiles: files, Timeout: *timeout, SolverKind: *solverK,
		CexDir: *cexDir, Trace: *trace, DumpDir: *dumpDir, Cross: splitNonEmpty(*crossChk), SmtLog: *smtlog, NoReplay: *noReplay,
		Params: parseParams(*params), NConcrete: *nconc, Tags: *tags,
	}
	run.loadKnown(*knownFile)
	// collect harness functions from root packages
	type hf struct {
		fn  *ssa.Function
		src string
	}
	var hfs []hf
	for _, p := range ld.ppkgs {
		sp := ld.prog.Package(p.Types)
		if sp == nil {
			continue
		}
		var names []string
		for name, m := range sp.Members {
			if f, ok := m.(*ssa.Function); ok && re.MatchString(name) && strings.HasPrefix(name, "Verif") {
				_ = f
				names = append(names, name)
			}
		}
		sort.Strings(names)
		for _, name := range names {
			f := sp.Members[name].(*ssa.Function)
			file := ld.prog.Fset.Position(f.Pos()).Filename
			src := string(ov[file])
			// file-level directives of every harness file of the same package apply
			for path, data := range ov {
				if filepath.Dir(path) == filepath.Dir(file) && path != file && !strings.HasSuffix(path, "zz_verif_rt.go") {
					txt := string(data)
					if i := strings.Index(txt, "\nfunc "); i >= 0 {
						txt = txt[:i]
					}
					var dirs []string
					for _, m := range dirRe.FindAllString(txt, -1) {
						dirs = append(dirs, m)
					}
					if len(dirs) > 0 {
						src = strings.Join(dirs, "\n") + "\n" + src
					}
				}
			}
			hfs = append(hfs, hf{f, src})
		}
	}
	if len(hfs) == 0 {
		fmt.Fprintln(os.Stderr, "no harness functions matched")
		os.Exit(2)
	}
	if *unitsFile != "" {
		type unit struct {
			Funcs  string           `json:"funcs"`
			Params map[string]int64 `json:"params"`
		}
		var units []unit
		data, err := os.ReadFile(*unitsFile)
		if err == nil {
			err = json.Unmarshal(data, &units)
		}
		if err != nil {
			fmt.Fprintln(os.Stderr, "units:", err)
			os.Exit(2)
		}
		for _, u := range units {
			ure := regexp.MustCompile(u.Funcs)
			matched := false
			for _, h := range hfs {
				if ure.MatchString(h.fn.Name()) {
					matched = true
					run.Params = u.Params
					run.runHarness(ld, h.fn, h.src)
				}
			}
			if !matched {
				fmt.Fprintf(os.Stderr, "unit %s matched no harness function\n", u.Funcs)
				run.broken++
			}
		}
	} else {
		for _, h := range hfs {
			run.runHarness(ld, h.fn, h.src)
		}
	}
	run.LoadSeconds = loadT.Seconds()
	run.WallSeconds = time.Since(start).Seconds()
	if *out != "" {
		data, _ := json.MarshalIndent(run.result(), "", " ")
		os.WriteFile(*out, data, 0o644)
	}
	os.Exit(run.exitCode())
}

func splitNonEmpty(s string) []string {
	var out []string
	for _, p := range strings.Split(s, ",") {
		if p = strings.TrimSpace(p); p != "" {
			out = append(out, p)
		}
	}
	return out
}

func parseParams(s string) map[string]int64 {
	m := map[string]int64{}
	for _, kv := range splitNonEmpty(s) {
		var k string
		var v int64
		if i := strings.Index(kv, "="); i > 0 {
			k = kv[:i]
			fmt.Sscanf(kv[i+1:], "%d", &v)
			m[k] = v
		}
	}
	return m
}
