package main

// Guarded, merging symbolic interpreter for go/ssa.

import (
	"fmt"
	"math/rand"
	"time"
	"go/token"
	"go/types"
	"os"
	"strings"

	"golang.org/x/tools/go/ssa"
)

type Abort struct {
	Cond  *Term
	Kind  string // panic | unsupported | unwind | wouldblock | deadlock
	Site  string
	Msg   string
	Where string // innermost function of the module under test on the call stack
}

// repoFrame returns the innermost non-harness function of the module under test.
func (in *Interp) repoFrame() string {
	var out []string
	for i := len(in.callStack) - 1; i >= 0 && len(out) < 2; i-- {
		k := in.callStack[i]
		if strings.Contains(k, "asyncmachine-go") && !strings.Contains(k, ".verif") && !strings.Contains(k, ".Verif") {
			k = strings.ReplaceAll(k, "github.com/pancsta/asyncmachine-go/pkg/", "")
			k = strings.ReplaceAll(k, "github.com/pancsta/asyncmachine-go/", "")
			out = append(out, k)
		}
	}
	return strings.Join(out, "<")
}

type Assertion struct {
	Name    string
	Kind    string // assert | reach
	Guard   *Term
	Cond    *Term
	Assume  *Term
	Aborted *Term
	Known   []KnownRegion
	Site    string
	Seq     int
}

type KnownRegion struct {
	Key  string
	Cond *Term
}

type Nondet struct {
	Name  string
	Kind  string
	T     *Term
	Guard *Term
	Site  string
}

type Intrinsic func(fr *Frame, g *Term, args []Value, site ssa.Instruction, fn *ssa.Function) []Value

type Interp struct {
	prog       *ssa.Program
	solver     *Solver
	assume     *Term
	aborts     []Abort
	abortAny   *Term
	asserts    []Assertion
	nondets    []Nondet
	known      []KnownRegion
	splits     []*Term
	feasSolver *Solver
	inTask     bool
	lockDepth  int // mutexes currently held (fork mode bookkeeping for schedule exploration)
	permuteMaps  bool
	permuteSites []string
	sinceVar   *Term
	// fork mode (path-by-path execution): every symbolic branch consumes one decision
	forkMode  bool
	decisions []bool
	decPos    int
	newWork   [][]bool
	pathR     *restrictor
	forced    int
	feasMemo   map[*Term]bool
	assumeList []*Term
	assumeSent int
	abortSent  int
	pool       []map[string]uint64
	poolHits   int
	needSplit  bool
	globals    map[*ssa.Global]*Loc
	finfo      map[*ssa.Function]*FuncInfo
	intrinsics map[string]Intrinsic
	stubs      map[string]bool
	overrides  map[string]*ssa.Function
	goInline   map[string]bool
	depth      int
	maxDepth   int
	unwind     int
	curSite    string
	fnStats    map[string]int // function -> activations
	fnInstrs   map[string]int
	maxIter    int
	feasQ      int
	nondetSeq  int
	natCount   int
	mapCount   int
	chanCount  int
	trace      bool
	lenient    bool
	callStack  []string
	tasks      []task
	fset       *token.FileSet
	heldLocks  map[*Loc]*Term
	lockEvents []string
	initDone   map[*ssa.Package]bool
	mapOrder   func(keys []string) []int
	params     map[string]int64
	goModes    map[string]string
	timersNeverFire bool
	concrete    bool
	rng         *rand.Rand
	concreteLog []string
	ctxCanceled, ctxDeadline *IfaceVal
	ctxBackground *NativeObj
}

type task struct {
	g    *Term
	fv   *FuncVal
	args []Value
	site string
	seq  int
	done bool
}

func NewInterp(prog *ssa.Program, solver *Solver) *Interp {
	in := &Interp{
		prog: prog, solver: solver, assume: tTrue, abortAny: tFalse,
		globals: map[*ssa.Global]*Loc{}, finfo: map[*ssa.Function]*FuncInfo{},
		intrinsics: map[string]Intrinsic{}, stubs: map[string]bool{}, overrides: map[string]*ssa.Function{},
		goInline: map[string]bool{}, maxDepth: 48, unwind: 64,
		fnStats: map[string]int{}, fnInstrs: map[string]int{}, fset: prog.Fset,
		heldLocks: map[*Loc]*Term{}, initDone: map[*ssa.Package]bool{}, feasMemo: map[*Term]bool{},
	}
	registerIntrinsics(in)
	return in
}

func (in *Interp) site(ins ssa.Instruction) string {
	if ins == nil {
		return in.curSite
	}
	pos := ins.Pos()
	fn := ""
	if ins.Parent() != nil {
		fn = ins.Parent().String()
	}
	if pos.IsValid() {
		p := in.fset.Position(pos)
		return fmt.Sprintf("%s:%d (%s)", trimPath(p.Filename), p.Line, fn)
	}
	return fmt.Sprintf("%s block %d", fn, ins.Block().Index)
}

func trimPath(p string) string {
	if i := strings.Index(p, "/repo/"); i >= 0 {
		return p[i+6:]
	}
	if i := strings.Index(p, "/src/"); i >= 0 {
		return p[i+5:]
	}
	return p
}

type pathEnd struct{ why string }

// decide resolves a symbolic condition in fork mode: follows the recorded decision prefix, or picks
// a feasible side and queues the other one.
func (in *Interp) decide(c *Term) bool {
	if c.IsConst() {
		return c.IsTrue()
	}
	if in.pathR == nil {
		in.pathR = newRestrictor(tTrue, 1<<30)
	}
	in.pathR.budget = 1 << 30
	c = in.pathR.term(c)
	if c.IsConst() {
		return c.IsTrue()
	}
	var v bool
	if in.decPos < len(in.decisions) {
		v = in.decisions[in.decPos]
		in.decPos++
	} else {
		ft := in.feasible(c)
		ff := in.feasible(mkNot(c))
		switch {
		case ft && ff:
			alt := append(append([]bool{}, in.decisions[:in.decPos]...), false)
			in.newWork = append(in.newWork, alt)
			v = true
		case ft:
			v = true
			in.forced++
		case ff:
			v = false
			in.forced++
		default:
			panic(pathEnd{"infeasible path"})
		}
		in.decisions = append(in.decisions, v)
		in.decPos++
	}
	lit := c
	if !v {
		lit = mkNot(c)
	}
	in.assume = mkAnd(in.assume, lit)
	in.assumeList = append(in.assumeList, lit)
	in.pathR.learn(lit)
	in.pathR.memo = map[*Term]*Term{}
	return v
}

func (in *Interp) abort(g *Term, kind, site, msg string) {
	if g.IsFalse() {
		return
	}
	if in.forkMode {
		if !in.decide(g) {
			return
		}
		in.aborts = append(in.aborts, Abort{Cond: tTrue, Kind: kind, Site: site, Msg: msg, Where: in.repoFrame()})
		in.abortAny = tTrue
		panic(pathEnd{kind + ": " + msg})
	}
	in.aborts = append(in.aborts, Abort{Cond: g, Kind: kind, Site: site, Msg: msg, Where: in.repoFrame()})
	in.abortAny = mkOr(in.abortAny, g)
	if in.trace {
		fmt.Fprintf(os.Stderr, "ABORT[%s] %s: %s  under %s\n", kind, site, msg, g.str(2))
	}
}

func (in *Interp) unsupported(g *Term, msg string) {
	in.abort(g, "unsupported", in.curSite, msg)
}

// live returns the conjunction that constrains feasible, non-aborted executions so far.
func (in *Interp) live() []*Term {
	return []*Term{in.assume, mkNot(in.abortAny)}
}

func (in *Interp) feasible(g *Term) bool {
	if g.IsFalse() {
		return false
	}
	if in.solver == nil {
		return true
	}
	if v, ok := in.feasMemo[g]; ok {
		return v
	}
	in.feasQ++
	if in.feasQ%200 == 0 {
		fmt.Fprintf(os.Stderr, "progress: %d feasibility queries (%d by pool), %d term nodes, %d aborts, depth %d, in %s\n", in.feasQ, in.poolHits, TermNodes, len(in.aborts), in.depth, strings.Join(in.callStack, " > "))
	}
	// 1. model pool: a cached assignment that satisfies the live constraints and g answers "feasible"
	for _, m := range in.pool {
		memo := map[*Term]uint64{}
		if evalTerm(g, m, memo) == 1 && evalTerm(in.assume, m, memo) == 1 {
			in.poolHits++
			return true
		}
	}
	t0 := time.Now()
	var want []*Term
	for _, n := range in.nondets {
		want = append(want, n.T)
	}
	// aborted paths are not excluded here: a weaker constraint set only prunes less
	r, model := in.solver.Check([]*Term{in.assume, g}, want)
	in.feasMemo[g] = r != Unsat
	if d := time.Since(t0); d > 500*time.Millisecond {
		fmt.Fprintf(os.Stderr, "slow feasibility query (%v, %s) at %s in %s; %d term nodes\n", d, r, in.curSite, in.callStack[len(in.callStack)-1], TermNodes)
	}
	if r == Sat && model != nil {
		m := map[string]uint64{}
		for _, n := range in.nondets {
			m[n.T.name] = model[n.T]
		}
		in.pool = append(in.pool, m)
		if len(in.pool) > 48 {
			in.pool = in.pool[1:]
		}
	}
	return r != Unsat
}

// ---- frames

type deferred struct {
	g    *Term
	fv   *FuncVal
	args []Value
	// invoke on interface
	recv   *IfaceVal
	method *types.Func
	site   ssa.Instruction
}

type Frame struct {
	in      *Interp
	fn      *ssa.Function
	fi      *FuncInfo
	env     map[ssa.Value]Value
	g       *Term
	blockG  []*Term
	pendG   []*Term
	pendPhi map[*ssa.Phi]Value
	exitEnv map[*Loop]map[ssa.Value]Value
	defers  []deferred
	retG    *Term
	rets    []Value
	binds   []Value
	entryG  *Term
	caller  *Frame
}

func (in *Interp) info(fn *ssa.Function) *FuncInfo {
	fi := in.finfo[fn]
	if fi == nil {
		fi = analyze(fn)
		in.finfo[fn] = fi
	}
	return fi
}

func fnKey(fn *ssa.Function) string {
	if o := fn.Origin(); o != nil {
		return o.String()
	}
	return fn.String()
}

// callFn executes fn under guard g and returns its (merged) results.
func (in *Interp) callFn(caller *Frame, fn *ssa.Function, args []Value, binds []Value, g *Term, site ssa.Instruction) []Value {
	if g.IsFalse() {
		return in.zeroResults(fn.Signature)
	}
	key := fnKey(fn)
	if ov, ok := in.overrides[key]; ok && ov != fn {
		return in.callFn(caller, ov, args, nil, g, site)
	}
	if h, ok := in.intrinsics[key]; ok {
		saved := in.curSite
		in.curSite = in.site(site)
		r := h(caller, g, args, site, fn)
		in.curSite = saved
		return r
	}
	if fn.Pkg != nil || fn.Origin() != nil || true {
		hn := fn.Name()
		if o := fn.Origin(); o != nil {
			hn = o.Name()
		}
		if h, ok := in.intrinsics["#"+hn]; ok && isHarnessAPI(fn) {
			saved := in.curSite
			in.curSite = in.site(site)
			r := h(caller, g, args, site, fn)
			in.curSite = saved
			return r
		}
	}
	if in.stubs[key] {
		return in.zeroResults(fn.Signature)
	}
	if len(fn.Blocks) == 0 {
		// try to build on demand (methods of instantiated generics, wrappers)
		if fn.Synthetic == "" && fn.Pkg != nil {
			fn.Pkg.Build()
		}
	}
	if len(fn.Blocks) == 0 {
		if in.lenient {
			return in.opaqueResults(fn.Signature, "external "+key)
		}
		in.abort(g, "unsupported", in.site(site), "call of function without body: "+key)
		return in.opaqueResults(fn.Signature, "external "+key)
	}
	if in.depth >= in.maxDepth {
		in.abort(g, "unwind", in.site(site), "call depth exceeded at "+key)
		return in.zeroResults(fn.Signature)
	}
	// calls under a guard narrower than the caller's: skip the callee when the guard is infeasible
	if !in.forkMode && !g.IsTrue() && caller != nil && g != caller.entryG && len(fn.Blocks) > 3 {
		if !in.feasible(g) {
			return in.zeroResults(fn.Signature)
		}
	}
	// recursion: ask the solver whether this activation is reachable at all
	if !g.IsTrue() {
		rec := 0
		for _, k := range in.callStack {
			if k == key {
				rec++
			}
		}
		if rec >= 1 && !in.feasible(g) {
			return in.zeroResults(fn.Signature)
		}
	}
	// unconditional self-recursion (a call in the entry block, before any branch) with the caller's own
	// arguments never terminates
	if caller != nil && caller.fn == fn && g == caller.entryG && len(args) == len(fn.Params) && site != nil &&
		site.Block() != nil && site.Block().Index == 0 {
		same := true
		for i, p := range fn.Params {
			if !identical(caller.env[p], args[i]) {
				same = false
				break
			}
		}
		if same && len(fn.Params) > 0 {
			in.abort(g, "panic", in.site(site), "infinite recursion: "+fn.Name()+" calls itself with its own arguments (stack overflow)")
			return in.zeroResults(fn.Signature)
		}
	}
	fi := in.info(fn)
	if fi.err != "" {
		in.abort(g, "unsupported", in.site(site), fi.err+" in "+key)
		return in.opaqueResults(fn.Signature, "irreducible")
	}
	in.fnStats[key]++
	in.fnInstrs[key] = fi.ninstr
	fr := &Frame{
		in: in, fn: fn, fi: fi, env: make(map[ssa.Value]Value, fi.ninstr),
		blockG: make([]*Term, len(fn.Blocks)), pendG: make([]*Term, len(fn.Blocks)),
		pendPhi: map[*ssa.Phi]Value{}, exitEnv: map[*Loop]map[ssa.Value]Value{},
		retG: tFalse, binds: binds, entryG: g, caller: caller,
	}
	var rr *restrictor
	if !g.IsTrue() {
		rr = newRestrictor(g, 600)
	}
	for i, p := range fn.Params {
		if i < len(args) {
			if rr != nil {
				args[i] = rr.value(in, args[i])
			}
			fr.env[p] = args[i]
		} else {
			fr.env[p] = in.zero(p.Type())
		}
	}
	for i, fv := range fn.FreeVars {
		if i < len(binds) {
			fr.env[fv] = binds[i]
		}
	}
	nres := fn.Signature.Results().Len()
	fr.rets = make([]Value, nres)
	in.depth++
	in.callStack = append(in.callStack, key)
	if in.trace {
		fmt.Fprintf(os.Stderr, "%s> %s  g=%s\n", strings.Repeat(" ", in.depth), key, g.str(1))
	}
	fr.pendG[0] = g
	fr.runRegion(fi.order)
	in.callStack = in.callStack[:len(in.callStack)-1]
	in.depth--
	for i := range fr.rets {
		if fr.rets[i] == nil {
			fr.rets[i] = in.zero(fn.Signature.Results().At(i).Type())
		}
	}
	return fr.rets
}

func (in *Interp) zeroResults(sig *types.Signature) []Value {
	out := make([]Value, sig.Results().Len())
	for i := range out {
		out[i] = in.zero(sig.Results().At(i).Type())
	}
	return out
}

func (in *Interp) opaqueResults(sig *types.Signature, why string) []Value {
	out := make([]Value, sig.Results().Len())
	for i := range out {
		t := sig.Results().At(i).Type()
		if isString(t) {
			out[i] = opaqueStr(why)
		} else {
			out[i] = &Opaque{why}
		}
	}
	return out
}

func (fr *Frame) runRegion(order []regionNode) {
	for _, nd := range order {
		if nd.b != nil {
			fr.runBlock(nd.b)
		} else {
			fr.runLoop(nd.l)
		}
	}
}

func (fr *Frame) runLoop(l *Loop) {
	in := fr.in
	h := l.header.Index
	iter := 0
	for {
		g := fr.pendG[h]
		if g == nil || g.IsFalse() {
			break
		}
		askFrom := 1
		if strings.HasPrefix(l.header.Comment, "rangeindex") {
			// index loops over slices terminate syntactically at the interval bound of len
			askFrom = 1
		}
		if iter >= askFrom && !g.IsTrue() {
			// ask the solver only when the guard is not syntactically decided
			if !in.feasible(g) {
				fr.pendG[h] = nil
				for _, ins := range l.header.Instrs {
					if phi, ok := ins.(*ssa.Phi); ok {
						delete(fr.pendPhi, phi)
					} else {
						break
					}
				}
				break
			}
		}
		if iter >= in.unwind {
			in.abort(g, "unwind", in.site(l.header.Instrs[0]), fmt.Sprintf("loop unwinding bound %d reached in %s", in.unwind, fr.fn))
			fr.pendG[h] = nil
			break
		}
		fr.runRegion(l.order)
		iter++
		if iter > in.maxIter {
			in.maxIter = iter
		}
	}
	if ee := fr.exitEnv[l]; ee != nil {
		for v, val := range ee {
			fr.env[v] = val
		}
		delete(fr.exitEnv, l)
	}
}

func (fr *Frame) runBlock(b *ssa.BasicBlock) {
	in := fr.in
	g := fr.pendG[b.Index]
	fr.pendG[b.Index] = nil
	if g == nil || g.IsFalse() {
		fr.blockG[b.Index] = tFalse
		for _, ins := range b.Instrs {
			if phi, ok := ins.(*ssa.Phi); ok {
				delete(fr.pendPhi, phi)
			} else {
				break
			}
		}
		return
	}
	if r := fr.fi.restore[b.Index]; r >= 0 {
		if rg := fr.blockG[r]; rg != nil && !rg.IsFalse() {
			g = rg
		}
	}
	fr.blockG[b.Index] = g
	fr.g = g
	if fr.in.trace {
		fmt.Fprintf(os.Stderr, "%s  block %d (%s) [%d terms] g=%s\n", strings.Repeat(" ", fr.in.depth), b.Index, b.Comment, TermNodes, g.str(1))
	}
	for _, ins := range b.Instrs {
		if phi, ok := ins.(*ssa.Phi); ok {
			v := fr.pendPhi[phi]
			delete(fr.pendPhi, phi)
			if v == nil {
				v = in.zero(phi.Type())
			}
			fr.env[phi] = v
			continue
		}
		fr.exec(ins)
		if traceVals {
			if v, ok := ins.(ssa.Value); ok {
				fmt.Fprintf(os.Stderr, "%s    %s = %s   => %s\n", strings.Repeat(" ", fr.in.depth), v.Name(), ins.String(), valString(fr.env[v]))
			} else {
				fmt.Fprintf(os.Stderr, "%s    %s\n", strings.Repeat(" ", fr.in.depth), ins.String())
			}
		}
	}
}

var traceVals = os.Getenv("VERIF_TRACE_VALS") != ""

func (fr *Frame) edge(b *ssa.BasicBlock, si int, g *Term) {
	if g.IsFalse() {
		return
	}
	to := b.Succs[si]
	k := 0
	for j := 0; j < si; j++ {
		if b.Succs[j] == to {
			k++
		}
	}
	pi := -1
	for j, p := range to.Preds {
		if p == b {
			if k == 0 {
				pi = j
				break
			}
			k--
		}
	}
	for _, ins := range to.Instrs {
		phi, ok := ins.(*ssa.Phi)
		if !ok {
			break
		}
		v := fr.in.restrictVal(fr.val(phi.Edges[pi]), g)
		fr.pendPhi[phi] = fr.in.merge(g, v, fr.pendPhi[phi])
	}
	if old := fr.pendG[to.Index]; old == nil {
		fr.pendG[to.Index] = g
	} else {
		fr.pendG[to.Index] = mkOr(old, g)
	}
	for l := fr.fi.innermost[b.Index]; l != nil && !l.blocks[to]; l = l.parent {
		if len(l.liveOut) == 0 {
			continue
		}
		ee := fr.exitEnv[l]
		if ee == nil {
			ee = map[ssa.Value]Value{}
			fr.exitEnv[l] = ee
		}
		for _, v := range l.liveOut {
			cur, ok := fr.env[v]
			if !ok {
				continue
			}
			ee[v] = fr.in.merge(g, cur, ee[v])
		}
	}
}

func (fr *Frame) ret(g *Term, vals []Value) {
	for i, v := range vals {
		fr.rets[i] = fr.in.merge(g, v, fr.rets[i])
	}
	fr.retG = mkOr(fr.retG, g)
}

// val evaluates an SSA operand.
func (fr *Frame) val(v ssa.Value) Value {
	switch x := v.(type) {
	case *ssa.Const:
		return fr.in.constVal(x)
	case *ssa.Global:
		return ptrTo(fr.in.global(x))
	case *ssa.Function:
		return &FuncVal{Alts: []FuncAlt{{G: tTrue, Fn: x}}}
	case *ssa.Builtin:
		return &FuncVal{Alts: []FuncAlt{{G: tTrue, Native: "builtin:" + x.Name()}}}
	}
	r, ok := fr.env[v]
	if !ok {
		// value whose defining block was not executed (dead under current guard)
		return fr.in.zero(v.Type())
	}
	return r
}

func (in *Interp) global(g *ssa.Global) *Loc {
	l := in.globals[g]
	if l == nil {
		l = in.newLoc(g.Type().(*types.Pointer).Elem(), g.String())
		in.globals[g] = l
	}
	return l
}

func (in *Interp) constVal(c *ssa.Const) Value {
	t := c.Type()
	if c.Value == nil {
		return in.zero(t)
	}
	if w, _, ok := bvWidth(t); ok {
		if w == 0 {
			return mkBool(constantBool(c))
		}
		return mkConst(w, constU64(c))
	}
	if isString(t) {
		return strConst(constantString(c))
	}
	if isFloat(t) {
		if f, ok := constantFloatInt(c); ok {
			return &FloatInt{mkConst(64, uint64(f))}
		}
		return &Opaque{"float const"}
	}
	if _, ok := t.Underlying().(*types.Interface); ok {
		return in.zero(t)
	}
	return in.zero(t)
}
