package main

// Hash-consed term DAG for booleans and bit-vectors (width <= 64) with local
// simplification and unsigned interval tracking.

import (
	"fmt"
	"math/bits"
	"sort"
	"strings"
)

type Op uint8

const (
	OpConst Op = iota
	OpVar
	OpNot
	OpAnd
	OpOr
	OpIte
	OpEq
	OpAdd
	OpSub
	OpMul
	OpUDiv
	OpURem
	OpSDiv
	OpSRem
	OpBAnd
	OpBOr
	OpBXor
	OpShl
	OpLShr
	OpAShr
	OpBNot
	OpNeg
	OpUlt
	OpUle
	OpSlt
	OpSle
	OpExtract
	OpZExt
	OpSExt
)

var opNames = map[Op]string{
	OpNot: "not", OpAnd: "and", OpOr: "or", OpIte: "ite", OpEq: "=",
	OpAdd: "bvadd", OpSub: "bvsub", OpMul: "bvmul", OpUDiv: "bvudiv", OpURem: "bvurem",
	OpSDiv: "bvsdiv", OpSRem: "bvsrem", OpBAnd: "bvand", OpBOr: "bvor", OpBXor: "bvxor",
	OpShl: "bvshl", OpLShr: "bvlshr", OpAShr: "bvashr", OpBNot: "bvnot", OpNeg: "bvneg",
	OpUlt: "bvult", OpUle: "bvule", OpSlt: "bvslt", OpSle: "bvsle",
}

// Term is an immutable DAG node. w==0 means Bool.
type Term struct {
	op     Op
	w      uint8
	args   []*Term
	val    uint64 // const value / extract (hi<<8|lo)
	name   string
	id     int
	lo, hi uint64 // unsigned interval (bv only)
	leaves int    // >0: this is a tree of ite over constants with that many leaves
	neg    *Term  // cached negation
}

func (t *Term) IsConst() bool { return t.op == OpConst }
func (t *Term) IsTrue() bool  { return t.op == OpConst && t.w == 0 && t.val == 1 }
func (t *Term) IsFalse() bool { return t.op == OpConst && t.w == 0 && t.val == 0 }
func (t *Term) IsBool() bool  { return t.w == 0 }

type termKey struct {
	op         Op
	w          uint8
	val        uint64
	a0, a1, a2 int32
	rest       string
}

var (
	termTab   = map[termKey]*Term{}
	termList  []*Term
	tTrue     *Term
	tFalse    *Term
	varCount  int
	TermNodes int
)

func init() {
	tFalse = mk(OpConst, 0, 0, "")
	tTrue = mk(OpConst, 0, 1, "")
}

func mask(w uint8) uint64 {
	if w >= 64 {
		return ^uint64(0)
	}
	return (uint64(1) << w) - 1
}

func mk(op Op, w uint8, val uint64, name string, args ...*Term) *Term {
	k := termKey{op: op, w: w, val: val, a0: -1, a1: -1, a2: -1}
	if name != "" {
		k.rest = name
	}
	switch len(args) {
	case 0:
	case 1:
		k.a0 = int32(args[0].id)
	case 2:
		k.a0, k.a1 = int32(args[0].id), int32(args[1].id)
	case 3:
		k.a0, k.a1, k.a2 = int32(args[0].id), int32(args[1].id), int32(args[2].id)
	default:
		var sb strings.Builder
		for _, a := range args {
			fmt.Fprintf(&sb, "%d,", a.id)
		}
		k.rest = sb.String()
	}
	if t, ok := termTab[k]; ok {
		return t
	}
	t := &Term{op: op, w: w, val: val, name: name, id: len(termList)}
	if len(args) > 0 {
		t.args = append([]*Term(nil), args...)
	}
	t.computeInterval()
	termTab[k] = t
	termList = append(termList, t)
	TermNodes++
	return t
}

func (t *Term) computeInterval() {
	if t.w == 0 {
		return
	}
	m := mask(t.w)
	t.lo, t.hi = 0, m
	switch t.op {
	case OpConst:
		t.lo, t.hi = t.val, t.val
		t.leaves = 1
	case OpIte:
		a, b := t.args[1], t.args[2]
		t.lo, t.hi = min(a.lo, b.lo), max(a.hi, b.hi)
		if a.leaves > 0 && b.leaves > 0 {
			t.leaves = a.leaves + b.leaves
		}
	case OpAdd:
		a, b := t.args[0], t.args[1]
		hi, c := bits.Add64(a.hi, b.hi, 0)
		if c == 0 && hi <= m {
			t.lo, t.hi = a.lo+b.lo, hi
		}
	case OpSub:
		a, b := t.args[0], t.args[1]
		if a.lo >= b.hi {
			t.lo, t.hi = a.lo-b.hi, a.hi-b.lo
		}
	case OpMul:
		a, b := t.args[0], t.args[1]
		h, l := bits.Mul64(a.hi, b.hi)
		if h == 0 && l <= m {
			t.lo, t.hi = a.lo*b.lo, l
		}
	case OpZExt:
		t.lo, t.hi = t.args[0].lo, t.args[0].hi
	case OpExtract:
		a := t.args[0]
		lo := uint8(t.val & 0xff)
		if lo == 0 && a.hi <= m {
			t.lo, t.hi = a.lo, a.hi
		}
	case OpBAnd:
		t.hi = min(t.args[0].hi, t.args[1].hi)
	case OpURem:
		b := t.args[1]
		if b.lo > 0 {
			t.hi = b.hi - 1
		}
		t.hi = min(t.hi, t.args[0].hi)
	case OpUDiv:
		b := t.args[1]
		if b.lo > 0 {
			t.lo, t.hi = t.args[0].lo/b.hi, t.args[0].hi/b.lo
		}
	case OpLShr:
		t.hi = t.args[0].hi
	}
}

func mkBool(b bool) *Term {
	if b {
		return tTrue
	}
	return tFalse
}

func mkConst(w uint8, v uint64) *Term {
	if w == 0 {
		return mkBool(v != 0)
	}
	return mk(OpConst, w, v&mask(w), "")
}

// mkVar creates a fresh named variable. Names are made unique by the caller.
func mkVar(name string, w uint8) *Term {
	varCount++
	return mk(OpVar, w, 0, name)
}

// mkVarRange creates a variable with a declared unsigned interval; the range
// constraint itself must be assumed by the caller.
func mkVarRange(name string, w uint8, lo, hi uint64) *Term {
	t := mkVar(name, w)
	t.lo, t.hi = lo, hi
	return t
}

func mkNot(a *Term) *Term {
	if a.op == OpConst {
		return mkBool(a.val == 0)
	}
	if a.op == OpNot {
		return a.args[0]
	}
	if a.neg != nil {
		return a.neg
	}
	// negation normal form: push through and/or so that absorption rules see literals
	var r *Term
	if (a.op == OpAnd || a.op == OpOr) && len(a.args) <= 3 {
		neg := make([]*Term, len(a.args))
		for i, x := range a.args {
			neg[i] = mkNot(x)
		}
		if a.op == OpAnd {
			r = mkOr(neg...)
		} else {
			r = mkAnd(neg...)
		}
	} else {
		r = mk(OpNot, 0, 0, "", a)
	}
	a.neg = r
	if r.neg == nil {
		r.neg = a
	}
	return r
}

func isNegOf(a, b *Term) bool {
	return (a.op == OpNot && a.args[0] == b) || (b.op == OpNot && b.args[0] == a)
}

func sortUniq(xs []*Term) []*Term {
	sort.Slice(xs, func(i, j int) bool { return xs[i].id < xs[j].id })
	out := xs[:0]
	for i, x := range xs {
		if i > 0 && xs[i-1] == x {
			continue
		}
		out = append(out, x)
	}
	return out
}

func mkAnd(xs ...*Term) *Term {
	var flat []*Term
	for _, x := range xs {
		if x.IsTrue() {
			continue
		}
		if x.IsFalse() {
			return tFalse
		}
		if x.op == OpAnd && len(x.args) <= flattenLimit {
			flat = append(flat, x.args...)
		} else {
			flat = append(flat, x)
		}
	}
	if len(flat) == 0 {
		return tTrue
	}
	flat = sortUniq(flat)
	if len(flat) == 1 {
		return flat[0]
	}
	// complement detection
	set := make(map[*Term]bool, len(flat))
	for _, x := range flat {
		set[x] = true
	}
	for _, x := range flat {
		if x.op == OpNot && set[x.args[0]] {
			return tFalse
		}
	}
	// absorption with disjunctions: a & (a | b) = a ; a & (!a | b) = a & b
	changed := false
	for i, x := range flat {
		if x.op != OpOr {
			continue
		}
		var keep []*Term
		absorbed := false
		for _, d := range x.args {
			if set[d] {
				absorbed = true
				break
			}
			if (d.op == OpNot && set[d.args[0]]) || set[mkNotNoCreate(d)] {
				continue
			}
			keep = append(keep, d)
		}
		if absorbed {
			flat[i] = tTrue
			changed = true
		} else if len(keep) != len(x.args) {
			flat[i] = mkOr(keep...)
			changed = true
		}
	}
	if changed {
		return mkAnd(flat...)
	}
	return mk(OpAnd, 0, 0, "", flat...)
}

// mkNotNoCreate returns the existing negation of d if it is a Not node's arg; otherwise nil-safe dummy.
func mkNotNoCreate(d *Term) *Term {
	if d.op == OpNot {
		return d.args[0]
	}
	if d.neg != nil {
		return d.neg
	}
	k := termKey{op: OpNot, a0: int32(d.id), a1: -1, a2: -1}
	if t, ok := termTab[k]; ok {
		return t
	}
	return nil
}

func mkOr(xs ...*Term) *Term {
	var flat []*Term
	for _, x := range xs {
		if x.IsFalse() {
			continue
		}
		if x.IsTrue() {
			return tTrue
		}
		if x.op == OpOr && len(x.args) <= flattenLimit {
			flat = append(flat, x.args...)
		} else {
			flat = append(flat, x)
		}
	}
	if len(flat) == 0 {
		return tFalse
	}
	flat = sortUniq(flat)
	if len(flat) == 1 {
		return flat[0]
	}
	set := make(map[*Term]bool, len(flat))
	for _, x := range flat {
		set[x] = true
	}
	for _, x := range flat {
		if x.op == OpNot && set[x.args[0]] {
			return tTrue
		}
	}
	// absorption: a | (a & b) = a ; a | (!a & b) = a | b
	changed := false
	for i, x := range flat {
		if x.op != OpAnd {
			continue
		}
		var keep []*Term
		absorbed := false
		for _, c := range x.args {
			if set[c] {
				absorbed = true
				break
			}
			if n := mkNotNoCreate(c); n != nil && set[n] {
				continue
			}
			keep = append(keep, c)
		}
		if absorbed {
			flat[i] = tFalse
			changed = true
		} else if len(keep) != len(x.args) {
			flat[i] = mkAnd(keep...)
			changed = true
		}
	}
	if changed {
		return mkOr(flat...)
	}
	// resolution: (S & c) | (S & !c) = S
	if len(flat) <= 12 {
		for i := 0; i < len(flat); i++ {
			for j := i + 1; j < len(flat); j++ {
				if r := resolve(flat[i], flat[j]); r != nil {
					rest := make([]*Term, 0, len(flat)-1)
					for k, x := range flat {
						if k != i && k != j {
							rest = append(rest, x)
						}
					}
					rest = append(rest, r)
					return mkOr(rest...)
				}
			}
		}
	}
	return mk(OpOr, 0, 0, "", flat...)
}

func conjuncts(t *Term) []*Term {
	if t.op == OpAnd {
		return t.args
	}
	return []*Term{t}
}

// resolve returns S if a = S&c and b = S&!c (as conjunct sets), else nil.
func resolve(a, b *Term) *Term {
	ca, cb := conjuncts(a), conjuncts(b)
	if len(ca) != len(cb) {
		return nil
	}
	// both sorted by id; find the symmetric difference
	var da, db *Term
	i, j := 0, 0
	for i < len(ca) || j < len(cb) {
		switch {
		case i < len(ca) && j < len(cb) && ca[i] == cb[j]:
			i++
			j++
		case j >= len(cb) || (i < len(ca) && ca[i].id < cb[j].id):
			if da != nil {
				return nil
			}
			da = ca[i]
			i++
		default:
			if db != nil {
				return nil
			}
			db = cb[j]
			j++
		}
	}
	if da == nil || db == nil || !isNegOf(da, db) {
		return nil
	}
	var s []*Term
	for _, x := range ca {
		if x != da {
			s = append(s, x)
		}
	}
	return mkAnd(s...)
}

func mkImplies(a, b *Term) *Term { return mkOr(mkNot(a), b) }

func mkIte(c, a, b *Term) *Term {
	if c.IsTrue() {
		return a
	}
	if c.IsFalse() {
		return b
	}
	if a == b {
		return a
	}
	if c.op == OpNot {
		return mkIte(c.args[0], b, a)
	}
	if a.w == 0 {
		switch {
		case a.IsTrue() && b.IsFalse():
			return c
		case a.IsFalse() && b.IsTrue():
			return mkNot(c)
		case a.IsTrue():
			return mkOr(c, b)
		case a.IsFalse():
			return mkAnd(mkNot(c), b)
		case b.IsTrue():
			return mkOr(mkNot(c), a)
		case b.IsFalse():
			return mkAnd(c, a)
		}
	}
	if a.op == OpIte && a.args[0] == c {
		a = a.args[1]
	}
	if b.op == OpIte && b.args[0] == c {
		b = b.args[2]
	}
	if a == b {
		return a
	}
	// ite(c, x, ite(d, x, y)) = ite(c|d, x, y)
	if b.op == OpIte && b.args[1] == a {
		return mkIte(mkOr(c, b.args[0]), a, b.args[2])
	}
	return mk(OpIte, a.w, 0, "", c, a, b)
}

const liftLimit = 24

// flattenLimit bounds and/or flattening so that large guards stay shared sub-terms
const flattenLimit = 6

// liftIte distributes an operation over ite-trees of constants.
func liftIte(build func(args []*Term) *Term, args []*Term) *Term {
	prod := 1
	idx := -1
	for i, a := range args {
		if a.leaves == 0 {
			return nil
		}
		prod *= a.leaves
		if a.op == OpIte && idx < 0 {
			idx = i
		}
	}
	if idx < 0 || prod > liftLimit {
		return nil
	}
	a := args[idx]
	l := append([]*Term(nil), args...)
	r := append([]*Term(nil), args...)
	l[idx] = a.args[1]
	r[idx] = a.args[2]
	return mkIte(a.args[0], build(l), build(r))
}

func mkEq(a, b *Term) *Term {
	if a == b {
		return tTrue
	}
	if a.w != b.w {
		panic(fmt.Sprintf("mkEq width mismatch %d %d", a.w, b.w))
	}
	if a.op == OpConst && b.op == OpConst {
		return mkBool(a.val == b.val)
	}
	if a.w == 0 {
		if a.op == OpConst {
			a, b = b, a
		}
		if b.IsTrue() {
			return a
		}
		if b.IsFalse() {
			return mkNot(a)
		}
		if isNegOf(a, b) {
			return tFalse
		}
	} else {
		if a.hi < b.lo || b.hi < a.lo {
			return tFalse
		}
		if r := liftIte(func(x []*Term) *Term { return mkEq(x[0], x[1]) }, []*Term{a, b}); r != nil {
			return r
		}
		// ite(c, k1, x) == k2 with k1 != k2 constants
		if b.op == OpConst && a.op == OpIte {
			if a.args[1].op == OpConst && a.args[1].val != b.val {
				return mkAnd(mkNot(a.args[0]), mkEq(a.args[2], b))
			}
			if a.args[2].op == OpConst && a.args[2].val != b.val {
				return mkAnd(a.args[0], mkEq(a.args[1], b))
			}
		}
		if a.op == OpConst && b.op == OpIte {
			return mkEq(b, a)
		}
	}
	if a.id > b.id {
		a, b = b, a
	}
	return mk(OpEq, 0, 0, "", a, b)
}

func sext64(v uint64, w uint8) int64 {
	if w >= 64 {
		return int64(v)
	}
	s := 64 - w
	return int64(v<<s) >> s
}

func foldBin(op Op, w uint8, x, y uint64) (uint64, bool) {
	m := mask(w)
	switch op {
	case OpAdd:
		return (x + y) & m, true
	case OpSub:
		return (x - y) & m, true
	case OpMul:
		return (x * y) & m, true
	case OpUDiv:
		if y == 0 {
			return m, true
		}
		return x / y, true
	case OpURem:
		if y == 0 {
			return x, true
		}
		return x % y, true
	case OpSDiv:
		if y == 0 {
			return 0, false
		}
		sx, sy := sext64(x, w), sext64(y, w)
		if sy == -1 {
			return uint64(-sx) & m, true
		}
		return uint64(sx/sy) & m, true
	case OpSRem:
		if y == 0 {
			return 0, false
		}
		sx, sy := sext64(x, w), sext64(y, w)
		if sy == -1 {
			return 0, true
		}
		return uint64(sx%sy) & m, true
	case OpBAnd:
		return x & y, true
	case OpBOr:
		return x | y, true
	case OpBXor:
		return x ^ y, true
	case OpShl:
		if y >= uint64(w) {
			return 0, true
		}
		return (x << y) & m, true
	case OpLShr:
		if y >= uint64(w) {
			return 0, true
		}
		return x >> y, true
	case OpAShr:
		sx := sext64(x, w)
		if y >= uint64(w) {
			y = uint64(w) - 1
		}
		return uint64(sx>>y) & m, true
	}
	return 0, false
}

func mkBin(op Op, a, b *Term) *Term {
	if a.w != b.w || a.w == 0 {
		panic(fmt.Sprintf("mkBin %v width mismatch %d %d", op, a.w, b.w))
	}
	w := a.w
	if a.op == OpConst && b.op == OpConst {
		if v, ok := foldBin(op, w, a.val, b.val); ok {
			return mkConst(w, v)
		}
	}
	switch op {
	case OpAdd:
		if a.op == OpConst {
			a, b = b, a
		}
		if b.op == OpConst && b.val == 0 {
			return a
		}
		// (x + k1) + k2
		if b.op == OpConst && a.op == OpAdd && a.args[1].op == OpConst {
			return mkBin(OpAdd, a.args[0], mkConst(w, a.args[1].val+b.val))
		}
		// (x - y) + y = x
		if a.op == OpSub && a.args[1] == b {
			return a.args[0]
		}
		if b.op == OpSub && b.args[1] == a {
			return b.args[0]
		}
		if b.op != OpConst && a.id > b.id {
			a, b = b, a
		}
	case OpSub:
		if b.op == OpConst && b.val == 0 {
			return a
		}
		if a == b {
			return mkConst(w, 0)
		}
		// (x + y) - x = y
		if a.op == OpAdd {
			if a.args[0] == b {
				return a.args[1]
			}
			if a.args[1] == b {
				return a.args[0]
			}
		}
		if b.op == OpConst {
			return mkBin(OpAdd, a, mkConst(w, -b.val))
		}
	case OpMul:
		if a.op == OpConst {
			a, b = b, a
		}
		if b.op == OpConst {
			if b.val == 0 {
				return b
			}
			if b.val == 1 {
				return a
			}
		}
	case OpBAnd:
		if a.op == OpConst {
			a, b = b, a
		}
		if b.op == OpConst {
			if b.val == 0 {
				return b
			}
			if b.val == mask(w) {
				return a
			}
		}
		if a == b {
			return a
		}
	case OpBOr:
		if a.op == OpConst {
			a, b = b, a
		}
		if b.op == OpConst {
			if b.val == 0 {
				return a
			}
			if b.val == mask(w) {
				return b
			}
		}
		if a == b {
			return a
		}
	case OpBXor:
		if a.op == OpConst {
			a, b = b, a
		}
		if b.op == OpConst && b.val == 0 {
			return a
		}
		if a == b {
			return mkConst(w, 0)
		}
	case OpShl, OpLShr, OpAShr:
		if b.op == OpConst && b.val == 0 {
			return a
		}
	case OpURem:
		// x % 2^k = x & (2^k-1)
		if b.op == OpConst && b.val != 0 && b.val&(b.val-1) == 0 {
			return mkBin(OpBAnd, a, mkConst(w, b.val-1))
		}
	case OpUDiv:
		if b.op == OpConst && b.val == 1 {
			return a
		}
	}
	if r := liftIte(func(x []*Term) *Term { return mkBin(op, x[0], x[1]) }, []*Term{a, b}); r != nil {
		return r
	}
	return mk(op, w, 0, "", a, b)
}

func mkUn(op Op, a *Term) *Term {
	if a.op == OpConst {
		switch op {
		case OpBNot:
			return mkConst(a.w, ^a.val)
		case OpNeg:
			return mkConst(a.w, -a.val)
		}
	}
	if a.op == op {
		return a.args[0]
	}
	if r := liftIte(func(x []*Term) *Term { return mkUn(op, x[0]) }, []*Term{a}); r != nil {
		return r
	}
	return mk(op, a.w, 0, "", a)
}

func mkCmp(op Op, a, b *Term) *Term {
	if a.w != b.w || a.w == 0 {
		panic(fmt.Sprintf("mkCmp width mismatch %d %d", a.w, b.w))
	}
	if a.op == OpConst && b.op == OpConst {
		switch op {
		case OpUlt:
			return mkBool(a.val < b.val)
		case OpUle:
			return mkBool(a.val <= b.val)
		case OpSlt:
			return mkBool(sext64(a.val, a.w) < sext64(b.val, b.w))
		case OpSle:
			return mkBool(sext64(a.val, a.w) <= sext64(b.val, b.w))
		}
	}
	if a == b {
		return mkBool(op == OpUle || op == OpSle)
	}
	sm := uint64(1) << (a.w - 1) // values below sm are non-negative
	switch op {
	case OpUlt:
		if a.hi < b.lo {
			return tTrue
		}
		if a.lo >= b.hi {
			return tFalse
		}
	case OpUle:
		if a.hi <= b.lo {
			return tTrue
		}
		if a.lo > b.hi {
			return tFalse
		}
	case OpSlt:
		if a.hi < sm && b.hi < sm {
			return mkCmp(OpUlt, a, b)
		}
	case OpSle:
		if a.hi < sm && b.hi < sm {
			return mkCmp(OpUle, a, b)
		}
	}
	if r := liftIte(func(x []*Term) *Term { return mkCmp(op, x[0], x[1]) }, []*Term{a, b}); r != nil {
		return r
	}
	return mk(op, 0, 0, "", a, b)
}

func mkExtract(a *Term, hi, lo uint8) *Term {
	if lo == 0 && hi == a.w-1 {
		return a
	}
	w := hi - lo + 1
	if a.op == OpConst {
		return mkConst(w, a.val>>lo)
	}
	switch a.op {
	case OpZExt:
		x := a.args[0]
		if hi < x.w {
			return mkExtract(x, hi, lo)
		}
		if lo >= x.w {
			return mkConst(w, 0)
		}
		if lo == 0 {
			return mkZExt(x, w)
		}
	case OpSExt:
		x := a.args[0]
		if hi < x.w {
			return mkExtract(x, hi, lo)
		}
		if lo == 0 {
			return mkSExt(x, w)
		}
	case OpExtract:
		l0 := uint8(a.val & 0xff)
		return mkExtract(a.args[0], hi+l0, lo+l0)
	case OpAdd, OpSub, OpMul, OpBAnd, OpBOr, OpBXor:
		if lo == 0 {
			return mkBin(a.op, mkExtract(a.args[0], hi, 0), mkExtract(a.args[1], hi, 0))
		}
	case OpNeg, OpBNot:
		if lo == 0 {
			return mkUn(a.op, mkExtract(a.args[0], hi, 0))
		}
	case OpIte:
		if a.args[1].op == OpConst || a.args[2].op == OpConst || a.leaves > 0 {
			return mkIte(a.args[0], mkExtract(a.args[1], hi, lo), mkExtract(a.args[2], hi, lo))
		}
	}
	return mk(OpExtract, w, uint64(hi)<<8|uint64(lo), "", a)
}

func mkZExt(a *Term, w uint8) *Term {
	if w == a.w {
		return a
	}
	if w < a.w {
		return mkExtract(a, w-1, 0)
	}
	if a.op == OpConst {
		return mkConst(w, a.val)
	}
	if a.op == OpZExt {
		return mkZExt(a.args[0], w)
	}
	if a.op == OpIte && a.leaves > 0 {
		return mkIte(a.args[0], mkZExt(a.args[1], w), mkZExt(a.args[2], w))
	}
	return mk(OpZExt, w, 0, "", a)
}

func mkSExt(a *Term, w uint8) *Term {
	if w == a.w {
		return a
	}
	if w < a.w {
		return mkExtract(a, w-1, 0)
	}
	if a.op == OpConst {
		return mkConst(w, uint64(sext64(a.val, a.w)))
	}
	if a.hi < uint64(1)<<(a.w-1) {
		return mkZExt(a, w)
	}
	if a.op == OpIte && a.leaves > 0 {
		return mkIte(a.args[0], mkSExt(a.args[1], w), mkSExt(a.args[2], w))
	}
	return mk(OpSExt, w, 0, "", a)
}

// ---- SMT-LIB printing

func sortName(w uint8) string {
	if w == 0 {
		return "Bool"
	}
	return fmt.Sprintf("(_ BitVec %d)", w)
}

func (t *Term) ref() string {
	switch t.op {
	case OpConst:
		if t.w == 0 {
			if t.val == 1 {
				return "true"
			}
			return "false"
		}
		return fmt.Sprintf("(_ bv%d %d)", t.val, t.w)
	case OpVar:
		return t.name
	}
	return fmt.Sprintf("t%d", t.id)
}

// body renders the defining expression of a non-leaf node.
func (t *Term) body() string {
	var sb strings.Builder
	switch t.op {
	case OpExtract:
		fmt.Fprintf(&sb, "((_ extract %d %d) %s)", t.val>>8, t.val&0xff, t.args[0].ref())
	case OpZExt:
		fmt.Fprintf(&sb, "((_ zero_extend %d) %s)", t.w-t.args[0].w, t.args[0].ref())
	case OpSExt:
		fmt.Fprintf(&sb, "((_ sign_extend %d) %s)", t.w-t.args[0].w, t.args[0].ref())
	default:
		sb.WriteString("(")
		sb.WriteString(opNames[t.op])
		for _, a := range t.args {
			sb.WriteString(" ")
			sb.WriteString(a.ref())
		}
		sb.WriteString(")")
	}
	return sb.String()
}

// String renders a (possibly large) term inline, for diagnostics.
func (t *Term) String() string {
	return t.str(4)
}

func (t *Term) str(depth int) string {
	if t.op == OpConst || t.op == OpVar {
		if t.op == OpConst && t.w != 0 {
			return fmt.Sprintf("%d", t.val)
		}
		return t.ref()
	}
	if depth == 0 {
		return t.ref()
	}
	var parts []string
	for _, a := range t.args {
		parts = append(parts, a.str(depth-1))
	}
	switch t.op {
	case OpExtract:
		return fmt.Sprintf("(extract %d %d %s)", t.val>>8, t.val&0xff, parts[0])
	case OpZExt:
		return fmt.Sprintf("(zext%d %s)", t.w, parts[0])
	case OpSExt:
		return fmt.Sprintf("(sext%d %s)", t.w, parts[0])
	}
	return "(" + opNames[t.op] + " " + strings.Join(parts, " ") + ")"
}

// evalTerm evaluates a term under a variable assignment (missing vars = 0).
func evalTerm(t *Term, env map[string]uint64, memo map[*Term]uint64) uint64 {
	if v, ok := memo[t]; ok {
		return v
	}
	var r uint64
	switch t.op {
	case OpConst:
		r = t.val
	case OpVar:
		r = env[t.name] & maskB(t.w)
	case OpNot:
		r = 1 - evalTerm(t.args[0], env, memo)
	case OpAnd:
		r = 1
		for _, a := range t.args {
			if evalTerm(a, env, memo) == 0 {
				r = 0
				break
			}
		}
	case OpOr:
		r = 0
		for _, a := range t.args {
			if evalTerm(a, env, memo) == 1 {
				r = 1
				break
			}
		}
	case OpIte:
		if evalTerm(t.args[0], env, memo) == 1 {
			r = evalTerm(t.args[1], env, memo)
		} else {
			r = evalTerm(t.args[2], env, memo)
		}
	case OpEq:
		r = b2u(evalTerm(t.args[0], env, memo) == evalTerm(t.args[1], env, memo))
	case OpUlt, OpUle, OpSlt, OpSle:
		x, y := evalTerm(t.args[0], env, memo), evalTerm(t.args[1], env, memo)
		w := t.args[0].w
		switch t.op {
		case OpUlt:
			r = b2u(x < y)
		case OpUle:
			r = b2u(x <= y)
		case OpSlt:
			r = b2u(sext64(x, w) < sext64(y, w))
		case OpSle:
			r = b2u(sext64(x, w) <= sext64(y, w))
		}
	case OpBNot:
		r = ^evalTerm(t.args[0], env, memo) & mask(t.w)
	case OpNeg:
		r = -evalTerm(t.args[0], env, memo) & mask(t.w)
	case OpExtract:
		r = (evalTerm(t.args[0], env, memo) >> (t.val & 0xff)) & mask(t.w)
	case OpZExt:
		r = evalTerm(t.args[0], env, memo)
	case OpSExt:
		r = uint64(sext64(evalTerm(t.args[0], env, memo), t.args[0].w)) & mask(t.w)
	default:
		x, y := evalTerm(t.args[0], env, memo), evalTerm(t.args[1], env, memo)
		v, ok := foldBin(t.op, t.w, x, y)
		if !ok {
			// SMT-LIB semantics of division by zero
			switch t.op {
			case OpSDiv:
				if sext64(x, t.w) < 0 {
					v = 1
				} else {
					v = mask(t.w)
				}
			case OpSRem:
				v = x
			}
		}
		r = v
	}
	memo[t] = r
	return r
}

func maskB(w uint8) uint64 {
	if w == 0 {
		return 1
	}
	return mask(w)
}

func b2u(b bool) uint64 {
	if b {
		return 1
	}
	return 0
}
