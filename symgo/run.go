package main

import (
	"encoding/json"
	"fmt"
	"math/rand"
	"os"
	"os/exec"
	"path/filepath"
	"sort"
	"strings"
	"time"

	"golang.org/x/tools/go/ssa"
)

type KnownEntry struct {
	Property string `json:"property"`
	Key      string `json:"key"`
	What     string `json:"what"`
	Status   string `json:"status"` // open | fixed
	Commit   string `json:"commit,omitempty"`
	Fixed    string `json:"fixed,omitempty"`
}

type Run struct {
	Prop, Tier   string
	Repo         string
	HarnessRoot  string
	HarnessFiles []string
	Timeout      int
	SolverKind   string
	CexDir       string
	Trace        bool
	DumpDir      string
	Cross        []string
	SmtLog       string
	NoReplay     bool
	Params       map[string]int64
	NConcrete    int
	Tags         string
	Known        map[string]KnownEntry
	Harnesses    []*HarnessResult
	LoadSeconds  float64
	WallSeconds  float64
	violations   int
	broken       int
	knownDone    map[string]bool
	violSeen     map[string]bool
}

type ObligationResult struct {
	Name     string `json:"name"`
	Kind     string `json:"kind"`
	Site     string `json:"site"`
	Result   string `json:"result"` // unsat | sat | unknown | trivial
	Ms       int64  `json:"ms"`
	Note     string `json:"note,omitempty"`
	Replay   string `json:"replay,omitempty"`
	CexPath  string `json:"cex,omitempty"`
	KnownKey string `json:"known_key,omitempty"`
}

type HarnessResult struct {
	Name           string             `json:"name"`
	Package        string             `json:"package"`
	Params         map[string]int64   `json:"params,omitempty"`
	Obligations    int                `json:"obligations"`
	Discharged     int                `json:"discharged"`
	Nontrivial     int                `json:"nontrivial"`
	Violations     int                `json:"violations"`
	KnownFindings  []string           `json:"known_findings,omitempty"`
	Inconclusive   []string           `json:"inconclusive,omitempty"`
	Reach          map[string]string  `json:"reach"`
	Results        []ObligationResult `json:"results,omitempty"`
	Functions      map[string]int     `json:"functions_encoded"`
	FunctionInstrs int                `json:"ssa_instructions_in_encoded_functions"`
	TermNodes      int                `json:"term_nodes"`
	Queries        int                `json:"solver_queries"`
	SolverMs       int64              `json:"solver_ms"`
	SolverMaxMs    int64              `json:"solver_max_ms"`
	FeasQueries    int                `json:"feasibility_queries"`
	FeasSolverMs   int64              `json:"feasibility_solver_ms"`
	PoolHits       int                `json:"feasibility_answered_by_model_pool"`
	MaxLoopIter    int                `json:"max_loop_iterations"`
	UnwindCap      int                `json:"unwind_cap"`
	Aborts         map[string]int     `json:"abort_sites"`
	Stubs          []string           `json:"stubs,omitempty"`
	Overrides      map[string]string  `json:"overrides,omitempty"`
	GoModes        map[string]string  `json:"go_modes,omitempty"`
	Nondets        int                `json:"nondet_inputs"`
	Paths          int                `json:"paths"`
	NontrivialPaths int               `json:"nontrivial_paths"`
	Decisions      int                `json:"branch_decisions"`
	PathSamples    []any              `json:"path_samples,omitempty"`
	Mode           string             `json:"mode"`
	UnreachableCex int                `json:"counterexamples_from_unreachable_prestates"`
	MaxTermNodes   int                `json:"-"`
	ForcedBranches int                `json:"branches_with_one_feasible_side"`
	PathEnds       map[string]int     `json:"path_ends,omitempty"`
	Samples        []any              `json:"samples,omitempty"`
	ExecSeconds    float64            `json:"exec_s"`
	Validated      int                `json:"traces_validated_against_impl"`
	ValidationBad  int                `json:"validation_mismatches"`
	SplitQueries   int                `json:"queries_decided_by_case_split"`
	SplitCases     int                `json:"case_split_subqueries"`
	CrossChecked   int                `json:"cross_checked"`
	CrossDisagree  int                `json:"cross_disagreements"`
	Notes          []string           `json:"notes,omitempty"`
}

func (r *Run) loadKnown(path string) {
	r.Known = map[string]KnownEntry{}
	data, err := os.ReadFile(path)
	if err != nil {
		return
	}
	var es []KnownEntry
	if err := json.Unmarshal(data, &es); err != nil {
		fmt.Fprintln(os.Stderr, "known findings file unreadable:", err)
		r.broken++
		return
	}
	for _, e := range es {
		r.Known[e.Key] = e
	}
}

func (r *Run) exitCode() int {
	if r.violations > 0 {
		return 1
	}
	if r.broken > 0 {
		return 2
	}
	return 0
}

func (r *Run) result() map[string]any {
	return map[string]any{
		"property": r.Prop, "tier": r.Tier, "harnesses": r.Harnesses, "load_s": r.LoadSeconds, "wall_s": r.WallSeconds,
		"violations": r.violations, "broken": r.broken, "params": r.Params,
	}
}

func pkgRel(repo string, fn *ssa.Function, ld *Loaded) string {
	file := ld.prog.Fset.Position(fn.Pos()).Filename
	rel, err := filepath.Rel(repo, filepath.Dir(file))
	if err != nil {
		return "."
	}
	return rel
}

func (r *Run) newInterp(ld *Loaded, fn *ssa.Function, d Directives, solver *Solver) *Interp {
	in := NewInterp(ld.prog, solver)
	in.trace = r.Trace
	in.params = r.Params
	for _, s := range d.Stubs {
		in.stubs[s] = true
	}
	for from, to := range d.Overrides {
		if f, ok := fn.Pkg.Members[to].(*ssa.Function); ok {
			in.overrides[from] = f
		} else {
			fmt.Fprintf(os.Stderr, "override target %s not found\n", to)
			r.broken++
		}
	}
	in.goModes = map[string]string{}
	for k, v := range d.GoModes {
		in.goModes[k] = v
	}
	if d.Unwind > 0 {
		in.unwind = d.Unwind
	}
	if d.Depth > 0 {
		in.maxDepth = d.Depth
	}
	in.timersNeverFire = d.NoTimers
	in.permuteSites = d.Permute
	return in
}

func (r *Run) runHarness(ld *Loaded, fn *ssa.Function, src string) {
	d := parseDirectives(src, fn.Name())
	hr := &HarnessResult{Name: fn.Name(), Package: pkgRel(r.Repo, fn, ld), Params: r.Params, Reach: map[string]string{},
		Aborts: map[string]int{}, PathEnds: map[string]int{}, Stubs: d.Stubs, Overrides: d.Overrides, GoModes: d.GoModes}
	r.Harnesses = append(r.Harnesses, hr)
	hr.Mode = d.Mode
	if hr.Mode == "" {
		hr.Mode = "merge"
	}

	// ---- translator validation: concrete runs in engine vs native build
	if r.NConcrete > 0 && !r.NoReplay {
		r.validate(ld, fn, d, hr)
	}

	resetTerms()
	solver, err := NewSolver(r.SolverKind, r.Timeout)
	if err != nil {
		fmt.Fprintln(os.Stderr, "solver:", err)
		r.broken++
		return
	}
	defer solver.Close()
	if r.SmtLog != "" {
		f, _ := os.Create(r.SmtLog)
		defer f.Close()
		solver.log = f
	}
	seenSample := map[string]bool{}
	knownSeen := map[string]bool{}
	work := [][]bool{nil}
	maxPaths := d.MaxPaths
	if maxPaths == 0 {
		maxPaths = 20000
	}
	var pool []map[string]uint64
	tStart := time.Now()
	for len(work) > 0 {
		dec := work[len(work)-1]
		work = work[:len(work)-1]
		if hr.Paths >= maxPaths {
			hr.Inconclusive = append(hr.Inconclusive, fmt.Sprintf("path cap %d reached with %d paths pending", maxPaths, len(work)+1))
			fmt.Printf("INCONCLUSIVE property=%s harness=%s path cap %d reached\n", r.Prop, fn.Name(), maxPaths)
			break
		}
		if hr.Paths > 0 {
			resetTerms()
			solver.Reset()
		}
		hr.Paths++
		in, ended := r.execPath(ld, fn, d, hr, solver, dec, pool)
		pool = in.pool
		work = append(work, in.newWork...)
		hr.ForcedBranches += in.forced
		if ended != "" {
			hr.PathEnds[ended]++
		}
		nAssertsBefore := hr.Obligations
		r.processPath(ld, fn, d, hr, in, solver, seenSample, knownSeen)
		hr.Decisions += len(in.decisions)
		if d.Mode == "fork" && len(in.decisions) > 0 && hr.Obligations > nAssertsBefore {
			// a path that took at least one solver-decided branch and reached an assertion
			hr.NontrivialPaths++
		}
		if d.Mode == "fork" && len(hr.PathSamples) < 3 && hr.Obligations > nAssertsBefore {
			hr.PathSamples = append(hr.PathSamples, map[string]any{"decisions": len(in.decisions), "inputs": in.pathInputs(16), "assertions": hr.Obligations - nAssertsBefore})
		}
		if d.Mode != "fork" {
			break
		}
	}
	hr.ExecSeconds = time.Since(tStart).Seconds()
	for name, res := range hr.Reach {
		if res != "sat" {
			hr.Inconclusive = append(hr.Inconclusive, "reachability twin "+name+" is "+res+" (vacuous harness?)")
			fmt.Printf("BROKEN property=%s harness=%s reachability twin %s is %s\n", r.Prop, fn.Name(), name, res)
			r.broken++
		}
	}
	hr.TermNodes = hr.MaxTermNodes
	hr.Queries = solver.Queries
	hr.SolverMs = solver.TotalTime.Milliseconds()
	hr.SolverMaxMs = solver.MaxTime.Milliseconds()
	if solver.Errors > 0 {
		hr.Inconclusive = append(hr.Inconclusive, fmt.Sprintf("%d solver errors", solver.Errors))
	}
	// compress results: keep non-unsat ones and a few samples
	var kept []ObligationResult
	nUnsat := 0
	for _, o := range hr.Results {
		if o.Result == "unsat" || o.Result == "trivial" {
			nUnsat++
			if nUnsat > 12 {
				continue
			}
		}
		kept = append(kept, o)
	}
	hr.Results = kept
	if len(hr.PathEnds) > 0 {
		fmt.Printf("[%s] path ends: %v\n", fn.Name(), hr.PathEnds)
	}
	fmt.Printf("[%s] paths=%d obligations=%d discharged=%d nontrivial=%d violations=%d known=%d inconclusive=%d queries=%d solver=%.2fs (max %.2fs)\n",
		fn.Name(), hr.Paths, hr.Obligations, hr.Discharged, hr.Nontrivial, hr.Violations, len(hr.KnownFindings), len(hr.Inconclusive),
		solver.Queries, solver.TotalTime.Seconds(), solver.MaxTime.Seconds())
}

// execPath runs the harness once (whole run in merge mode, one path in fork mode).
func (r *Run) execPath(ld *Loaded, fn *ssa.Function, d Directives, hr *HarnessResult, solver *Solver, dec []bool, pool []map[string]uint64) (*Interp, string) {
	in := r.newInterp(ld, fn, d, solver)
	in.forkMode = d.Mode == "fork"
	in.decisions = dec
	in.pool = pool
	ended := ""
	func() {
		defer func() {
			if e := recover(); e != nil {
				if pe, ok := e.(pathEnd); ok {
					ended = pe.why
					return
				}
				fmt.Fprintf(os.Stderr, "ENGINE PANIC in %s at %s: %v\ncall stack: %s\n", fn.Name(), in.curSite, e, strings.Join(in.callStack, " > "))
				if r.Trace {
					panic(e)
				}
				hr.Inconclusive = append(hr.Inconclusive, fmt.Sprintf("engine failure: %v at %s", e, in.curSite))
				r.broken++
			}
		}()
		in.callFn(nil, fn, nil, nil, tTrue, nil)
	}()
	return in, ended
}

// processPath issues the verdict queries of one run / path.
func (r *Run) processPath(ld *Loaded, fn *ssa.Function, d Directives, hr *HarnessResult, in *Interp, solver *Solver, seenSample, knownSeen map[string]bool) {
	if in.feasSolver != nil {
		hr.FeasSolverMs = in.feasSolver.TotalTime.Milliseconds()
		in.feasSolver.Close()
	}

	if hr.Functions == nil {
		hr.Functions = map[string]int{}
	}
	for k, v := range in.fnStats {
		if _, ok := hr.Functions[k]; !ok {
			hr.FunctionInstrs += in.fnInstrs[k]
		}
		hr.Functions[k] += v
	}
	hr.UnwindCap = in.unwind
	hr.MaxLoopIter = max(hr.MaxLoopIter, in.maxIter)
	hr.Nondets = max(hr.Nondets, len(in.nondets))
	hr.FeasQueries += in.feasQ
	hr.PoolHits += in.poolHits
	hr.MaxTermNodes = max(hr.MaxTermNodes, TermNodes)

	if !in.forkMode {
		fmt.Printf("[%s] executed: %d asserts, %d aborts, %d nondets, %d term nodes, %d functions\n",
			fn.Name(), len(in.asserts), len(in.aborts), len(in.nondets), TermNodes, len(in.fnStats))
	}

	// ---- aborts: reachable unsupported/unwind sites make the run inconclusive
	type agroup struct {
		kind, site, msg, where string
		cond                   *Term
	}
	groups := map[string]*agroup{}
	var gorder []string
	for _, a := range in.aborts {
		k := a.Kind + "|" + a.Site + "|" + a.Msg
		g := groups[k]
		if g == nil {
			g = &agroup{a.Kind, a.Site, a.Msg, a.Where, tFalse}
			groups[k] = g
			gorder = append(gorder, k)
		}
		g.cond = mkOr(g.cond, a.Cond)
	}
	anyAbort := Unsat
	if len(gorder) > 0 {
		anyAbort, _ = solver.Check([]*Term{in.assume, in.abortAny}, nil)
	}
	for _, k := range gorder {
		if anyAbort == Unsat {
			break
		}
		g := groups[k]
		res, model := solver.Check([]*Term{in.assume, g.cond}, in.nondetTerms())
		if res == Unsat {
			continue
		}
		hr.Aborts[g.kind+": "+g.site+": "+g.msg]++
		note := fmt.Sprintf("%s reachable (%s) at %s: %s", g.kind, res, g.site, g.msg)
		switch {
		case g.kind == "panic" && d.Panics == "ignore":
			hr.Notes = append(hr.Notes, note)
		case g.kind == "panic" && d.Panics == "violation" && res == Sat:
			// a listed finding? keys of the form "panic@<function>:<message part>"
			kk := ""
			for key, e := range r.Known {
				if strings.HasPrefix(key, "panic@") && e.Status != "fixed" && strings.Contains(g.where+":"+g.msg, key[6:]) {
					kk = key
				}
			}
			if kk == "" || !r.knownDone[kk] {
				ok := r.handleCex(ld, fn, hr, in, Assertion{Name: "no-panic@" + g.where, Kind: "panic", Site: g.site}, model, g.msg+" in "+g.where, kk)
				if ok && kk != "" {
					if r.knownDone == nil {
						r.knownDone = map[string]bool{}
					}
					r.knownDone[kk] = true
				}
			}
		case g.kind == "panic":
			hr.Notes = append(hr.Notes, note+" (paths excluded)")
			fmt.Printf("NOTE property=%s harness=%s %s\n", r.Prop, fn.Name(), note)
		default:
			hr.Inconclusive = append(hr.Inconclusive, note)
			fmt.Printf("INCONCLUSIVE property=%s harness=%s %s\n", r.Prop, fn.Name(), note)
		}
	}

	// ---- reachability twins and assertions
	for _, a := range in.asserts {
		base := []*Term{a.Assume, mkNot(a.Aborted), a.Guard}
		if a.Kind == "reach" {
			if hr.Reach[a.Name] == "sat" {
				continue
			}
			res, model := solver.Check(base, in.nondetTerms())
			hr.Reach[a.Name] = res.String()
			if res == Sat && !seenSample[a.Name] && len(hr.Samples) < 6 {
				seenSample[a.Name] = true
				hr.Samples = append(hr.Samples, map[string]any{"reach": a.Name, "inputs": in.modelInputs(model, 24)})
			}
			continue
		}
		hr.Obligations++
		or := ObligationResult{Name: a.Name, Kind: a.Kind, Site: a.Site}
		viol := mkAnd(a.Guard, mkNot(a.Cond))
		if viol.IsFalse() {
			or.Result = "trivial"
			hr.Discharged++
			hr.Results = append(hr.Results, or)
			continue
		}
		hr.Nontrivial++
		conj := append(base, mkNot(a.Cond))
		// exclude known regions listed in the known-findings file (open entries only)
		var knownHere []KnownRegion
		for _, k := range a.Known {
			if e, ok := r.Known[k.Key]; ok && e.Status != "fixed" {
				knownHere = append(knownHere, k)
				conj = append(conj, mkNot(k.Cond))
			}
		}
		t1 := time.Now()
		res, model := r.decide(solver, in, hr, conj)
		or.Ms = time.Since(t1).Milliseconds()
		or.Result = res.String()
		switch res {
		case Unsat:
			hr.Discharged++
			r.crossCheck(hr, fn.Name(), a, conj, res)
		case Sat:
			r.handleCex(ld, fn, hr, in, a, model, "", "")
			or.Note = "counterexample"
		default:
			hr.Inconclusive = append(hr.Inconclusive, fmt.Sprintf("assertion %s at %s: solver %s", a.Name, a.Site, res))
			fmt.Printf("INCONCLUSIVE property=%s harness=%s assertion=%s solver=%s\n", r.Prop, fn.Name(), a.Name, res)
		}
		// known regions: does the listed finding still reproduce?
		for _, k := range knownHere {
			if knownSeen[k.Key] || r.knownDone[k.Key] {
				continue
			}
			kc := append(append([]*Term{}, base...), mkNot(a.Cond), k.Cond)
			for _, k2 := range knownHere {
				if k2.Key != k.Key {
					kc = append(kc, mkNot(k2.Cond))
				}
			}
			kres, kmodel := r.decide(solver, in, hr, kc)
			if kres == Sat {
				knownSeen[k.Key] = r.handleCex(ld, fn, hr, in, a, kmodel, "", k.Key)
				if knownSeen[k.Key] {
					if r.knownDone == nil {
						r.knownDone = map[string]bool{}
					}
					r.knownDone[k.Key] = true
				}
			}
		}
		if len(hr.Results) < 400 || or.Result == "sat" || or.Result == "unknown" {
			hr.Results = append(hr.Results, or)
		}
	}
}

// decide answers one verdict query. A quick attempt comes first; if it is inconclusive and the
// harness registered split conditions (vSplit), the query is decided by exhaustive case analysis over
// the sign patterns of those conditions (each case is again a solver query over all other inputs).
func (r *Run) decide(solver *Solver, in *Interp, hr *HarnessResult, conj []*Term) (Result, map[*Term]uint64) {
	want := in.nondetTerms()
	if len(in.splits) == 0 {
		return solver.Check(conj, want)
	}
	if !in.needSplit {
		quick := 1500
		if quick > r.Timeout {
			quick = r.Timeout
		}
		solver.SetTimeout(quick)
		res, model := solver.Check(conj, want)
		solver.SetTimeout(r.Timeout)
		if res != Unknown {
			return res, model
		}
		in.needSplit = true
	}
	k := len(in.splits)
	if k > 12 {
		k = 12
	}
	hr.SplitQueries++
	sawUnknown := false
	for pat := 0; pat < 1<<k; pat++ {
		c := append([]*Term{}, conj...)
		for i := 0; i < k; i++ {
			if pat&(1<<i) != 0 {
				c = append(c, in.splits[i])
			} else {
				c = append(c, mkNot(in.splits[i]))
			}
		}
		res, model := solver.Check(c, want)
		hr.SplitCases++
		switch res {
		case Sat:
			return Sat, model
		case Unknown:
			sawUnknown = true
		}
	}
	if sawUnknown {
		return Unknown, nil
	}
	return Unsat, nil
}

func (in *Interp) nondetTerms() []*Term {
	out := make([]*Term, 0, 2*len(in.nondets))
	for _, n := range in.nondets {
		out = append(out, n.T, n.Guard)
	}
	return out
}

// pathInputs lists the inputs of a path with the values the path condition pins them to (when constant).
func (in *Interp) pathInputs(limit int) []string {
	var out []string
	r := in.pathR
	for _, n := range in.nondets {
		if n.Kind == "env" || n.Kind == "select" {
			continue
		}
		v := "symbolic"
		if r != nil {
			if t := r.term(n.T); t.IsConst() {
				v = fmt.Sprintf("%d", t.val)
			}
		}
		out = append(out, n.Name+"="+v)
		if len(out) >= limit {
			out = append(out, "...")
			break
		}
	}
	return out
}

// modelInputs renders the nondet values that were actually consumed on the model's path.
func (in *Interp) modelInputs(model map[*Term]uint64, limit int) []string {
	var out []string
	for _, n := range in.nondets {
		if model[n.Guard] == 0 && !n.Guard.IsTrue() {
			continue
		}
		out = append(out, fmt.Sprintf("%s=%d", n.Name, model[n.T]))
		if limit > 0 && len(out) >= limit {
			out = append(out, "...")
			break
		}
	}
	return out
}

type cexFile struct {
	Property  string           `json:"property"`
	Harness   string           `json:"harness"`
	Package   string           `json:"package"`
	Assertion string           `json:"assertion"`
	Kind      string           `json:"kind"`
	Site      string           `json:"site"`
	Msg       string           `json:"msg,omitempty"`
	Params    map[string]int64 `json:"params,omitempty"`
	Values    []cexVal         `json:"values"`
	Env       []cexVal         `json:"env,omitempty"`
}
type cexVal struct {
	Kind string `json:"kind"`
	V    uint64 `json:"v"`
	Name string `json:"name,omitempty"`
}

func (r *Run) handleCex(ld *Loaded, fn *ssa.Function, hr *HarnessResult, in *Interp, a Assertion, model map[*Term]uint64, msg, knownKey string) (reproduced bool) {
	vkey := fn.Name() + "|" + a.Name + "|" + knownKey
	if r.violSeen == nil {
		r.violSeen = map[string]bool{}
	}
	if r.violSeen[vkey] {
		// the same assertion already produced a reproduced counterexample in this run
		if knownKey == "" {
			hr.Violations++
		}
		return true
	}
	cf := cexFile{Property: r.Prop, Harness: fn.Name(), Package: hr.Package, Assertion: a.Name, Kind: a.Kind, Site: a.Site, Msg: msg, Params: r.Params}
	for _, n := range in.nondets {
		if !n.Guard.IsTrue() && model[n.Guard] == 0 {
			continue
		}
		cv := cexVal{Kind: n.Kind, V: model[n.T], Name: n.Name}
		if n.Kind == "env" || n.Kind == "select" {
			cf.Env = append(cf.Env, cv)
		} else {
			cf.Values = append(cf.Values, cv)
		}
	}
	dir := r.CexDir
	if dir == "" {
		dir = "/verif/cex"
	}
	os.MkdirAll(dir, 0o755)
	tag := a.Name
	if knownKey != "" {
		tag = knownKey
	}
	// distinct per case parameters: shards run in parallel and must not overwrite each other's files
	ptag := ""
	if len(r.Params) > 0 {
		keys := make([]string, 0, len(r.Params))
		for k := range r.Params {
			keys = append(keys, k)
		}
		sort.Strings(keys)
		for _, k := range keys {
			ptag += fmt.Sprintf("-%s%d", k, r.Params[k])
		}
	}
	path := filepath.Join(dir, fmt.Sprintf("%s-%s-%s%s.json", r.Prop, fn.Name(), sanitize(tag), sanitize(ptag)))
	data, _ := json.MarshalIndent(cf, "", " ")
	os.WriteFile(path, data, 0o644)
	verdict := "NOT-RUN"
	if !r.NoReplay {
		verdict = r.replay(path, cf)
	}
	sample := map[string]any{"counterexample_for": a.Name, "inputs": in.modelInputs(model, 40), "replay": verdict, "cex": path}
	if len(hr.Samples) < 10 {
		hr.Samples = append(hr.Samples, sample)
	}
	reproduced = verdict == "REPRODUCED"
	if reproduced {
		r.violSeen[vkey] = true
	}
	switch {
	case verdict == "REPRODUCED" && knownKey != "":
		e := r.Known[knownKey]
		line := fmt.Sprintf("KNOWN-FINDING: property=%s %s [%s] replay=%s", r.Prop, e.What, knownKey, path)
		already := false
		for _, k := range hr.KnownFindings {
			if k == knownKey {
				already = true
			}
		}
		if !already {
			hr.KnownFindings = append(hr.KnownFindings, knownKey)
			fmt.Println(line)
		}
	case verdict == "REPRODUCED":
		hr.Violations++
		r.violations++
		fmt.Printf("VIOLATION property=%s replay=%s\n", r.Prop, path)
		fmt.Printf("  harness=%s assertion=%s site=%s %s inputs=%v\n", fn.Name(), a.Name, a.Site, msg, in.modelInputs(model, 40))
	case verdict == "UNREACHABLE-PRESTATE":
		// the inductive pre-state cannot be produced by any history of public mutations: the harness
		// invariant is weaker than reachability there; not a counterexample to the property
		hr.UnreachableCex++
		if hr.UnreachableCex <= 3 {
			hr.Notes = append(hr.Notes, fmt.Sprintf("counterexample for %s starts from an unreachable pre-state (no mutation history produces it); discarded; cex=%s", a.Name, path))
		}
	default:
		note := fmt.Sprintf("counterexample for %s at %s did not reproduce natively (%s): encoding or stub mismatch; cex=%s", a.Name, a.Site, verdict, path)
		hr.Inconclusive = append(hr.Inconclusive, note)
		fmt.Printf("INCONCLUSIVE property=%s harness=%s %s\n", r.Prop, fn.Name(), note)
	}
	return
}

func sanitize(s string) string {
	var sb strings.Builder
	for _, c := range s {
		if (c >= 'a' && c <= 'z') || (c >= 'A' && c <= 'Z') || (c >= '0' && c <= '9') || c == '-' || c == '_' {
			sb.WriteRune(c)
		} else {
			sb.WriteRune('_')
		}
	}
	return sb.String()
}

func (r *Run) crossCheck(hr *HarnessResult, hname string, a Assertion, conj []*Term, res Result) {
	if len(r.Cross) == 0 || r.DumpDir == "" {
		return
	}
	// cross-check only a bounded number of distinct assertion names per harness
	if hr.CrossChecked >= 8 {
		return
	}
	os.MkdirAll(r.DumpDir, 0o755)
	path := filepath.Join(r.DumpDir, fmt.Sprintf("%s-%s-%d.smt2", hname, sanitize(a.Name), a.Seq))
	if err := DumpStandalone(path, conj); err != nil {
		return
	}
	hr.CrossChecked++
	for _, k := range r.Cross {
		r2, d := RunStandalone(k, path, r.Timeout/1000+1)
		if r2 != Unknown && r2 != res {
			hr.CrossDisagree++
			hr.Inconclusive = append(hr.Inconclusive, fmt.Sprintf("solver disagreement on %s: %s says %s, %s says %s", a.Name, r.SolverKind, res, k, r2))
			fmt.Printf("INCONCLUSIVE property=%s solver disagreement on %s (%s: %s vs %s: %s)\n", r.Prop, a.Name, r.SolverKind, res, k, r2)
		}
		_ = d
	}
	os.Remove(path)
}

// ---- native replay

const rtTemplate = `package %s

import (
	"encoding/json"
	"fmt"
	"os"
	"runtime"
	"strings"
	"time"
)

type vCexVal struct {
	Kind string ` + "`json:\"kind\"`" + `
	V    uint64 ` + "`json:\"v\"`" + `
}
type vCexFile struct {
	Harness string            ` + "`json:\"harness\"`" + `
	Params  map[string]int64  ` + "`json:\"params\"`" + `
	Values  []vCexVal         ` + "`json:\"values\"`" + `
}

var vState struct {
	cex    vCexFile
	pos    int
	loaded bool
}

type vStop struct{ why string }

var verifHarnesses = map[string]func(){}

func verifRegister(name string, f func()) { verifHarnesses[name] = f }

func vLoad() {
	if vState.loaded {
		return
	}
	vState.loaded = true
	if p := os.Getenv("VERIF_MODEL"); p != "" {
		data, err := os.ReadFile(p)
		if err == nil {
			json.Unmarshal(data, &vState.cex)
		}
	}
}

func vNext(kind string) uint64 {
	vLoad()
	if vState.pos >= len(vState.cex.Values) {
		fmt.Println("VERIF-DESYNC exhausted at", kind)
		panic(vStop{"desync"})
	}
	v := vState.cex.Values[vState.pos]
	vState.pos++
	if v.Kind != kind {
		fmt.Println("VERIF-DESYNC want", kind, "have", v.Kind)
		panic(vStop{"desync"})
	}
	return v.V
}

func vBool() bool    { return vNext("bool") != 0 }
func vU8() uint8     { return uint8(vNext("u8")) }
func vU16() uint16   { return uint16(vNext("u16")) }
func vU32() uint32   { return uint32(vNext("u32")) }
func vU64() uint64   { return vNext("u64") }
func vInt(lo, hi int) int { return int(int64(vNext("int"))) }
func vAssume(c bool) {
	if !c {
		fmt.Println("VERIF-ASSUME-FALSE")
		panic(vStop{"assume"})
	}
}
func vAssert(name string, c bool) { fmt.Printf("VERIF-ASSERT %%s %%v\n", name, c) }
func vReach(name string)          { fmt.Println("VERIF-REACH", name) }
func vKnown(key string, c bool) bool { return c }
func vLog(name string, v uint64)  { fmt.Printf("VERIF-LOG %%s %%d\n", name, v) }
func vSymbolic() bool             { return false }
func vSplit(c bool)               {}
func vStats(name string)          {}
func vMapOrder(run int)           {}
func vRunTask(j int) bool         { return false }
func vPendingTasks() int          { return 0 }

var vMainG = vGoid()

func vGoid() string {
	b := make([]byte, 40)
	b = b[:runtime.Stack(b, false)]
	f := strings.Fields(string(b))
	if len(f) > 1 {
		return f[1]
	}
	return ""
}

// vInTask: natively a forked call runs on another goroutine than the harness
func vInTask() bool { return vGoid() != vMainG }
func vParam(name string, def int) int {
	vLoad()
	if v, ok := vState.cex.Params[name]; ok {
		return int(v)
	}
	return def
}
func vServe[T any](ch chan T, f func(T)) {}
func vReply[T any](ch chan T, v T)       {}
func vGoMode(name, mode string)          {}
func vRunTasks()                         {}
func vLocksHeld() bool                   { return false }
func vCompletes(f func()) bool {
	done := make(chan struct{})
	go func() { defer close(done); f() }()
	select {
	case <-done:
		return true
	case <-time.After(3 * time.Second):
		return false
	}
}
func vJoin(f func()) {
	done := make(chan struct{})
	go func() { defer close(done); f() }()
	<-done
}

func verifReplayMain() {
	vLoad()
	name := os.Getenv("VERIF_HARNESS")
	f := verifHarnesses[name]
	if f == nil {
		fmt.Println("VERIF-NOHARNESS", name)
		return
	}
	defer func() {
		if r := recover(); r != nil {
			if _, ok := r.(vStop); ok {
				fmt.Println("VERIF-STOPPED")
				return
			}
			fmt.Printf("VERIF-PANIC %%v\n", r)
		}
	}()
	f()
	fmt.Println("VERIF-DONE")
}
`

const rtTestTemplate = `package %s

import "testing"

func TestVerifReplay(t *testing.T) { verifReplayMain() }
`

// rtOverlayFor generates the runtime support file for a package directory.
func rtSource(pkgName string) string { return fmt.Sprintf(rtTemplate, pkgName) }

func packageClause(src string) string {
	for _, line := range strings.Split(src, "\n") {
		line = strings.TrimSpace(line)
		if strings.HasPrefix(line, "package ") {
			return strings.Fields(line)[1]
		}
	}
	return "main"
}

// replay runs the harness natively with the model's values; returns REPRODUCED / NOT-REPRODUCED / reason.
func (r *Run) replay(cexPath string, cf cexFile) string {
	out, err := r.nativeRun(cf.Package, cf.Harness, cexPath)
	if err != nil && out == "" {
		return "REPLAY-ERROR: " + err.Error()
	}
	os.WriteFile(strings.TrimSuffix(cexPath, ".json")+".replay.txt", []byte(out), 0o644)
	return r.replayVerdict(out, cf)
}

func (r *Run) replayVerdict(out string, cf cexFile) string {
	if strings.Contains(out, "VERIF-DESYNC") {
		return "NOT-REPRODUCED(desync)"
	}
	if cf.Kind == "panic" {
		if strings.Contains(out, "VERIF-PANIC") || strings.Contains(out, "panic:") || strings.Contains(out, "stack overflow") {
			return "REPRODUCED"
		}
		// a panic inside a handler is recovered by the real machine and surfaces as Exception: harnesses that
		// call repo code from inside a handler assert "no-handler-fault" for exactly that outcome
		if strings.Contains(out, "VERIF-ASSERT no-handler-fault false") {
			return "REPRODUCED"
		}
		if strings.Contains(out, "VERIF-LOG unreachable-prestate") {
			return "UNREACHABLE-PRESTATE"
		}
		return "NOT-REPRODUCED(no panic)"
	}
	// the failing assertion counts when it is reported before the native run stops
	for _, line := range strings.Split(out, "\n") {
		if strings.HasPrefix(line, "VERIF-ASSERT "+cf.Assertion+" false") {
			return "REPRODUCED"
		}
		if strings.HasPrefix(line, "VERIF-ASSUME-FALSE") || strings.HasPrefix(line, "VERIF-STOPPED") {
			break
		}
	}
	if strings.Contains(out, "VERIF-LOG unreachable-prestate") {
		return "UNREACHABLE-PRESTATE"
	}
	if strings.Contains(out, "VERIF-ASSUME-FALSE") {
		return "NOT-REPRODUCED(assumption false natively)"
	}
	if strings.Contains(out, "VERIF-PANIC") || strings.Contains(out, "panic:") {
		return "NOT-REPRODUCED(native panic instead)"
	}
	return "NOT-REPRODUCED"
}

// nativeRun executes harness natively (go test with overlay) and returns the combined output.
func (r *Run) nativeRun(pkgRelDir, harness, modelPath string) (string, error) {
	tmp, err := os.MkdirTemp("", "verif-replay-")
	if err != nil {
		return "", err
	}
	defer os.RemoveAll(tmp)
	ov := map[string]string{}
	pkgName := ""
	for _, rel := range r.HarnessFiles {
		if filepath.Dir(rel) != pkgRelDir {
			continue
		}
		root := harnessRoots[rel]
		if root == "" {
			root = r.HarnessRoot
		}
		src, _ := os.ReadFile(filepath.Join(root, rel))
		if pkgName == "" {
			pkgName = packageClause(string(src))
		}
		ov[filepath.Join(r.Repo, rel)] = filepath.Join(root, rel)
	}
	if pkgName == "" {
		return "", fmt.Errorf("no harness files for %s", pkgRelDir)
	}
	i := 0
	for rel, data := range instrumented {
		if filepath.Dir(rel) != pkgRelDir {
			continue
		}
		i++
		f := filepath.Join(tmp, fmt.Sprintf("instr%d.go", i))
		os.WriteFile(f, data, 0o644)
		ov[filepath.Join(r.Repo, rel)] = f
	}
	rt := filepath.Join(tmp, "rt.go")
	os.WriteFile(rt, []byte(rtSource(pkgName)), 0o644)
	tf := filepath.Join(tmp, "rt_test.go")
	os.WriteFile(tf, []byte(fmt.Sprintf(rtTestTemplate, pkgName)), 0o644)
	ov[filepath.Join(r.Repo, pkgRelDir, "zz_verif_rt.go")] = rt
	ov[filepath.Join(r.Repo, pkgRelDir, "zz_verif_rt_test.go")] = tf
	ovData, _ := json.Marshal(map[string]any{"Replace": ov})
	ovPath := filepath.Join(tmp, "overlay.json")
	os.WriteFile(ovPath, ovData, 0o644)
	args := []string{"test", "-vet=off", "-count=1", "-run", "^TestVerifReplay$", "-v", "-timeout", "120s", "-overlay", ovPath}
	if r.Tags != "" {
		args = append(args, "-tags", r.Tags)
	}
	args = append(args, "./"+pkgRelDir)
	cmd := exec.Command("go", args...)
	cmd.Dir = r.Repo
	cmd.Env = append(os.Environ(), "GOFLAGS=-mod=mod", "GOPROXY=off", "GOSUMDB=off", "GOTOOLCHAIN=local",
		"VERIF_HARNESS="+harness, "VERIF_MODEL="+modelPath)
	out, err := cmd.CombinedOutput()
	return string(out), err
}

// ---- translator validation

var interesting = []uint64{0, 1, 2, 3, 4, 5, 7, 8, 255, 256, 257, 65535, 65536, 65537, 1<<32 - 1, 1 << 32, 1<<32 + 1, 1<<63 - 1, 1 << 63, ^uint64(0)}

func (r *Run) validate(ld *Loaded, fn *ssa.Function, d Directives, hr *HarnessResult) {
	seed := int64(1)
	if s := os.Getenv("VERIF_SEED"); s != "" {
		fmt.Sscanf(s, "%d", &seed)
	}
	rng := rand.New(rand.NewSource(seed*7919 + int64(len(fn.Name()))))
	tries := 0
	for done := 0; done < r.NConcrete && tries < r.NConcrete*30; tries++ {
		resetTerms()
		in := r.newInterp(ld, fn, d, nil)
		in.concrete = true
		in.rng = rng
		ok := true
		func() {
			defer func() {
				if e := recover(); e != nil {
					if _, isStop := e.(concreteStop); isStop {
						ok = false
						return
					}
					fmt.Fprintf(os.Stderr, "ENGINE PANIC (concrete) in %s at %s: %v\n", fn.Name(), in.curSite, e)
					ok = false
					hr.ValidationBad++
				}
			}()
			in.callFn(nil, fn, nil, nil, tTrue, nil)
		}()
		if !ok {
			continue
		}
		// aborted concrete runs (panic/unsupported) are compared on their prefix only
		cf := cexFile{Property: r.Prop, Harness: fn.Name(), Package: hr.Package, Params: r.Params}
		for _, n := range in.nondets {
			if n.Kind == "env" || n.Kind == "select" {
				continue
			}
			cf.Values = append(cf.Values, cexVal{Kind: n.Kind, V: n.T.val})
		}
		tmp, _ := os.CreateTemp("", "verif-val-*.json")
		data, _ := json.Marshal(cf)
		tmp.Write(data)
		tmp.Close()
		out, _ := r.nativeRun(hr.Package, fn.Name(), tmp.Name())
		os.Remove(tmp.Name())
		var natLines []string
		for _, line := range strings.Split(out, "\n") {
			if strings.HasPrefix(line, "VERIF-ASSERT ") || strings.HasPrefix(line, "VERIF-LOG ") || strings.HasPrefix(line, "VERIF-REACH ") {
				natLines = append(natLines, strings.TrimSpace(line))
			}
		}
		engLines := in.concreteLog
		aborted := !in.abortAny.IsFalse()
		match := true
		if aborted {
			// native run should have panicked as well or diverged; compare common prefix
			n := min(len(natLines), len(engLines))
			for i := 0; i < n; i++ {
				if natLines[i] != engLines[i] {
					match = false
				}
			}
		} else {
			if len(natLines) != len(engLines) || !strings.Contains(out, "VERIF-DONE") {
				match = false
			} else {
				for i := range natLines {
					if natLines[i] != engLines[i] {
						match = false
					}
				}
			}
		}
		done++
		if match {
			hr.Validated++
		} else {
			hr.ValidationBad++
			r.broken++
			fmt.Printf("BROKEN property=%s harness=%s translator validation mismatch (engine vs native)\n  engine: %v\n  native: %v\n  aborted=%v\n", r.Prop, fn.Name(), engLines, natLines, aborted)
			if strings.Contains(out, "FAIL") || strings.Contains(out, "cannot") {
				fmt.Println(out)
			}
		}
	}
}

type concreteStop struct{}

func sortedStrings(m map[string]int) []string {
	var ks []string
	for k := range m {
		ks = append(ks, k)
	}
	sort.Strings(ks)
	return ks
}
