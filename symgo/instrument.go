package main

// Source instrumentation for schedule exploration: a harness file may carry
//
//	//verif:instrument <repo-relative file> <func> [<func> ...]
//
// The named functions of that file (regenerated from the repo's current source on every run) get a
// call `verifSched(k, "<func>: <statement>")` inserted before every statement of every block
// (function literals excluded). The harness package defines verifSched: while a preemption is
// pending it asks a symbolic boolean whether another goroutine's call runs at this point. The
// instrumented text is used for the symbolic run (packages overlay) and for the native replay
// (go test -overlay), so both sides see the same points. Insertions stay on the statement's line:
// line numbers are unchanged.

import (
	"bytes"
	"fmt"
	"go/ast"
	"go/parser"
	"go/token"
	"os"
	"path/filepath"
	"regexp"
	"sort"
	"strings"
)

var instrRe = regexp.MustCompile(`(?m)^//verif:instrument[ \t]+(\S+)[ \t]+(.*)$`)

// instrumentSpecs collects file -> function names from the harness sources.
func instrumentSpecs(srcs [][]byte) map[string][]string {
	out := map[string][]string{}
	for _, src := range srcs {
		for _, m := range instrRe.FindAllSubmatch(src, -1) {
			f := string(m[1])
			out[f] = append(out[f], strings.Fields(string(m[2]))...)
		}
	}
	return out
}

func instrumentSource(filename string, src []byte, funcs []string) ([]byte, int, error) {
	fset := token.NewFileSet()
	f, err := parser.ParseFile(fset, filename, src, parser.ParseComments)
	if err != nil {
		return nil, 0, err
	}
	want := map[string]bool{}
	for _, n := range funcs {
		want[n] = true
	}
	type ins struct {
		off  int
		text string
	}
	var inss []ins
	k := 0
	var fname string
	snippet := func(s ast.Stmt) string {
		a, b := fset.Position(s.Pos()).Offset, fset.Position(s.End()).Offset
		t := string(src[a:b])
		if i := strings.IndexAny(t, "\n{"); i >= 0 {
			t = t[:i]
		}
		t = strings.Join(strings.Fields(t), " ")
		if len(t) > 60 {
			t = t[:60]
		}
		return t
	}
	var doList func(list []ast.Stmt)
	var doStmt func(s ast.Stmt)
	doList = func(list []ast.Stmt) {
		for _, s := range list {
			k++
			inss = append(inss, ins{fset.Position(s.Pos()).Offset, fmt.Sprintf("verifSched(%d, %q); ", k, fname+": "+snippet(s))})
			doStmt(s)
		}
	}
	doStmt = func(s ast.Stmt) {
		switch s := s.(type) {
		case *ast.BlockStmt:
			doList(s.List)
		case *ast.IfStmt:
			doList(s.Body.List)
			if s.Else != nil {
				doStmt(s.Else)
			}
		case *ast.ForStmt:
			doList(s.Body.List)
		case *ast.RangeStmt:
			doList(s.Body.List)
		case *ast.SwitchStmt:
			for _, c := range s.Body.List {
				doList(c.(*ast.CaseClause).Body)
			}
		case *ast.TypeSwitchStmt:
			for _, c := range s.Body.List {
				doList(c.(*ast.CaseClause).Body)
			}
		case *ast.SelectStmt:
			for _, c := range s.Body.List {
				doList(c.(*ast.CommClause).Body)
			}
		case *ast.LabeledStmt:
			doStmt(s.Stmt)
		}
	}
	for _, d := range f.Decls {
		fd, ok := d.(*ast.FuncDecl)
		if !ok || fd.Body == nil || !want[fd.Name.Name] {
			continue
		}
		fname = fd.Name.Name
		doList(fd.Body.List)
	}
	sort.SliceStable(inss, func(i, j int) bool { return inss[i].off < inss[j].off })
	var out bytes.Buffer
	last := 0
	for _, in := range inss {
		out.Write(src[last:in.off])
		out.WriteString(in.text)
		last = in.off
	}
	out.Write(src[last:])
	return out.Bytes(), k, nil
}

// instrumented maps repo-relative file -> instrumented source (filled by applyInstrumentation).
var instrumented = map[string][]byte{}

func applyInstrumentation(repoDir string, ov map[string][]byte) error {
	var srcs [][]byte
	for p, data := range ov {
		if strings.HasSuffix(p, ".go") {
			srcs = append(srcs, data)
		}
	}
	for rel, funcs := range instrumentSpecs(srcs) {
		p := filepath.Join(repoDir, rel)
		src, err := os.ReadFile(p)
		if err != nil {
			return err
		}
		res, n, err := instrumentSource(p, src, funcs)
		if err != nil {
			return err
		}
		if n == 0 {
			return fmt.Errorf("instrument %s: none of %v found", rel, funcs)
		}
		ov[p] = res
		instrumented[rel] = res
		if d := os.Getenv("VERIF_INSTR_DUMP"); d != "" {
			os.WriteFile(filepath.Join(d, strings.ReplaceAll(rel, "/", "_")), res, 0o644)
		}
	}
	return nil
}
