package main

import (
	"fmt"
	"go/types"
	"strings"

	"golang.org/x/tools/go/ssa"
)

func isHarnessAPI(fn *ssa.Function) bool {
	n := fn.Name()
	return len(n) > 1 && n[0] == 'v' && n[1] >= 'A' && n[1] <= 'Z'
}

func (fr *Frame) evalArgs(c *ssa.CallCommon) []Value {
	args := make([]Value, len(c.Args))
	for i, a := range c.Args {
		args[i] = fr.val(a)
	}
	return args
}

func (fr *Frame) doCall(c *ssa.CallCommon, g *Term, site ssa.Instruction) []Value {
	in := fr.in
	args := fr.evalArgs(c)
	if c.IsInvoke() {
		recv, ok := fr.val(c.Value).(*IfaceVal)
		if !ok {
			in.unsupported(g, "invoke on opaque interface: "+c.Method.Name())
			return in.opaqueResults(c.Signature(), "invoke on opaque")
		}
		return in.invoke(fr, g, recv, c.Method, args, site)
	}
	switch v := c.Value.(type) {
	case *ssa.Builtin:
		return fr.builtin(v, g, args, c, site)
	case *ssa.Function:
		return in.callFn(fr, v, args, nil, g, site)
	}
	fv, ok := fr.val(c.Value).(*FuncVal)
	if !ok {
		in.unsupported(g, "call of opaque function value")
		return in.opaqueResults(c.Signature(), "call of opaque func")
	}
	return in.callFuncVal(fr, g, fv, args, c.Signature(), site)
}

func (in *Interp) callFuncVal(fr *Frame, g *Term, fv *FuncVal, args []Value, sig *types.Signature, site ssa.Instruction) []Value {
	in.abort(mkAnd(g, mkNot(fv.nonNil())), "panic", in.site(site), "call of nil function")
	var res []Value
	for i := len(fv.Alts) - 1; i >= 0; i-- {
		a := fv.Alts[i]
		gg := mkAnd(g, a.G)
		if gg.IsFalse() {
			continue
		}
		var r []Value
		if a.Native != "" {
			h := in.intrinsics[a.Native]
			if h == nil {
				in.abort(gg, "unsupported", in.site(site), "native closure "+a.Native)
				r = in.opaqueResults(sig, a.Native)
			} else {
				r = h(fr, gg, append(append([]Value{}, a.NatArg...), args...), site, nil)
			}
		} else {
			r = in.callFn(fr, a.Fn, args, a.Binds, gg, site)
		}
		res = in.mergeResults(a.G, r, res)
	}
	if res == nil {
		res = in.zeroResults(sig)
	}
	return res
}

func (in *Interp) mergeResults(g *Term, r, acc []Value) []Value {
	if acc == nil {
		return r
	}
	out := make([]Value, len(r))
	for i := range r {
		out[i] = in.merge(g, r[i], acc[i])
	}
	return out
}

func (in *Interp) invoke(fr *Frame, g *Term, recv *IfaceVal, method *types.Func, args []Value, site ssa.Instruction) []Value {
	sig := method.Type().(*types.Signature)
	nilKind, nilMsg := "panic", "method call on nil interface: "+method.Name()
	if site != nil && site.Parent() != nil && site.Parent().Synthetic != "" && strings.Contains(site.Parent().String(), ".verif") {
		// promoted-method wrapper of a harness stub type that embeds the interface and implements only part of it:
		// the code under test called a method the stub does not model - the harness's gap, not a panic of the real code
		nilKind, nilMsg = "unsupported", "harness stub does not implement "+method.Name()+" ("+site.Parent().String()+")"
	}
	in.abort(mkAnd(g, mkNot(recv.nonNil())), nilKind, in.site(site), nilMsg)
	var res []Value
	for i := len(recv.Alts) - 1; i >= 0; i-- {
		a := recv.Alts[i]
		gg := mkAnd(g, a.G)
		if gg.IsFalse() {
			continue
		}
		var r []Value
		if a.T == nil {
			r = in.nativeInvoke(fr, gg, a.V, method.Name(), args, sig, site)
		} else {
			fn := in.prog.LookupMethod(a.T, method.Pkg(), method.Name())
			if fn == nil {
				in.abort(gg, "unsupported", in.site(site), fmt.Sprintf("method %s not found on %s", method.Name(), a.T))
				r = in.opaqueResults(sig, "missing method")
			} else {
				r = in.callFn(fr, fn, append([]Value{a.V}, args...), nil, gg, site)
			}
		}
		res = in.mergeResults(a.G, r, res)
	}
	if res == nil {
		res = in.zeroResults(sig)
	}
	return res
}

// ---- defers and goroutines

func (fr *Frame) execDefer(x *ssa.Defer) {
	c := x.Common()
	d := deferred{g: fr.g, args: fr.evalArgs(c), site: x}
	if c.IsInvoke() {
		iv, _ := fr.val(c.Value).(*IfaceVal)
		d.recv = iv
		d.method = c.Method
	} else if b, ok := c.Value.(*ssa.Builtin); ok {
		d.fv = &FuncVal{Alts: []FuncAlt{{G: tTrue, Native: "builtin:" + b.Name()}}}
	} else {
		fv, _ := fr.val(c.Value).(*FuncVal)
		d.fv = fv
	}
	fr.defers = append(fr.defers, d)
}

func (fr *Frame) runDefers() {
	in := fr.in
	ds := fr.defers
	fr.defers = nil
	for i := len(ds) - 1; i >= 0; i-- {
		d := ds[i]
		g := mkAnd(fr.g, d.g)
		if g.IsFalse() {
			continue
		}
		c := d.site.(*ssa.Defer).Common()
		switch {
		case d.recv != nil:
			in.invoke(fr, g, d.recv, d.method, d.args, d.site)
		case d.fv != nil && len(d.fv.Alts) == 1 && len(d.fv.Alts[0].Native) > 8 && d.fv.Alts[0].Native[:8] == "builtin:":
			fr.builtin(c.Value.(*ssa.Builtin), g, d.args, c, d.site)
		case d.fv != nil:
			in.callFuncVal(fr, g, d.fv, d.args, c.Signature(), d.site)
		default:
			in.abort(g, "unsupported", in.site(d.site), "deferred call of opaque function")
		}
	}
}

func (fr *Frame) execGo(x *ssa.Go) {
	in := fr.in
	c := x.Common()
	name := ""
	var fv *FuncVal
	if c.IsInvoke() {
		name = "invoke:" + c.Method.Name()
		if recv, ok := fr.val(c.Value).(*IfaceVal); ok {
			fv = &FuncVal{Alts: []FuncAlt{{G: tTrue, Native: "#goinvoke", NatArg: []Value{recv, &methodBox{c.Method}}}}}
		}
	} else if f, ok := c.Value.(*ssa.Function); ok {
		name = fnKey(f)
		fv = &FuncVal{Alts: []FuncAlt{{G: tTrue, Fn: f}}}
	} else if mc, ok := c.Value.(*ssa.MakeClosure); ok {
		name = fnKey(mc.Fn.(*ssa.Function))
		fv, _ = fr.val(c.Value).(*FuncVal)
	} else {
		fv, _ = fr.val(c.Value).(*FuncVal)
		if fv != nil && len(fv.Alts) == 1 && fv.Alts[0].Fn != nil {
			name = fnKey(fv.Alts[0].Fn)
		}
	}
	mode := in.goMode(name)
	switch mode {
	case "inline":
		if fv != nil {
			in.callFuncVal(fr, fr.g, fv, fr.evalArgs(c), c.Signature(), x)
			return
		}
	case "task":
		if fv != nil {
			in.tasks = append(in.tasks, task{g: fr.g, fv: fv, args: fr.evalArgs(c), site: in.site(x), seq: len(in.tasks)})
			return
		}
	case "drop":
		in.lockEvents = append(in.lockEvents, "go-dropped "+name+" at "+in.site(x))
		return
	}
	in.abort(fr.g, "unsupported", in.site(x), "go statement: "+name)
}

type methodBox struct{ M *types.Func }

func (in *Interp) goMode(name string) string {
	if in.goInline[name] {
		return "inline"
	}
	if m, ok := in.goModes[name]; ok {
		return m
	}
	if m, ok := in.goModes["*"]; ok {
		return m
	}
	return ""
}

// ---- builtins

func (fr *Frame) builtin(b *ssa.Builtin, g *Term, args []Value, c *ssa.CallCommon, site ssa.Instruction) []Value {
	in := fr.in
	switch b.Name() {
	case "len":
		switch x := args[0].(type) {
		case *SliceVal:
			return []Value{x.length()}
		case *StrVal:
			r := mkConst(64, 0)
			xa := x.Alts()
			for i := len(xa) - 1; i >= 0; i-- {
				a := xa[i]
				if a.Opq {
					in.unsupported(mkAnd(g, a.G), "len of opaque string")
				}
				r = mkIte(a.G, mkConst(64, uint64(len(a.S))), r)
			}
			return []Value{r}
		case *MapVal:
			r := mkConst(64, 0)
			for i := len(x.Alts) - 1; i >= 0; i-- {
				r = mkIte(x.Alts[i].G, x.Alts[i].M.length(), r)
			}
			return []Value{r}
		case *TupleVal:
			return []Value{mkConst(64, uint64(len(x.Elems)))}
		case *PtrVal: // pointer to array
			if at, ok := c.Args[0].Type().Underlying().(*types.Pointer); ok {
				if arr, ok := at.Elem().Underlying().(*types.Array); ok {
					return []Value{mkConst(64, uint64(arr.Len()))}
				}
			}
		case *ChanVal:
			r := mkConst(64, 0)
			for i := len(x.Alts) - 1; i >= 0; i-- {
				r = mkIte(x.Alts[i].G, x.Alts[i].C.length(), r)
			}
			return []Value{r}
		}
		in.unsupported(g, fmt.Sprintf("len of %T", args[0]))
		return []Value{&Opaque{"len"}}
	case "cap":
		switch x := args[0].(type) {
		case *SliceVal:
			return []Value{x.capacity()}
		case *TupleVal:
			return []Value{mkConst(64, uint64(len(x.Elems)))}
		case *ChanVal:
			r := mkConst(64, 0)
			for i := len(x.Alts) - 1; i >= 0; i-- {
				r = mkIte(x.Alts[i].G, mkConst(64, uint64(x.Alts[i].C.Cap)), r)
			}
			return []Value{r}
		}
		in.unsupported(g, fmt.Sprintf("cap of %T", args[0]))
		return []Value{&Opaque{"cap"}}
	case "append":
		s, ok := args[0].(*SliceVal)
		if !ok {
			in.unsupported(g, "append to opaque")
			return []Value{&SliceVal{}}
		}
		et := c.Args[0].Type().Underlying().(*types.Slice).Elem()
		switch add := args[1].(type) {
		case *SliceVal:
			return []Value{in.appendSlice(g, s, add, et)}
		case *StrVal: // append([]byte, string...)
			conv := in.convert(g, add, types.Typ[types.String], c.Args[0].Type())
			if sl, ok := conv.(*SliceVal); ok {
				return []Value{in.appendSlice(g, s, sl, et)}
			}
		}
		in.unsupported(g, "append of opaque")
		return []Value{s}
	case "copy":
		dst, ok1 := args[0].(*SliceVal)
		if !ok1 {
			in.unsupported(g, "copy to opaque")
			return []Value{mkConst(64, 0)}
		}
		var src *SliceVal
		switch s := args[1].(type) {
		case *SliceVal:
			src = s
		case *StrVal:
			conv := in.convert(g, s, types.Typ[types.String], c.Args[0].Type())
			src, _ = conv.(*SliceVal)
		}
		if src == nil {
			in.unsupported(g, "copy from opaque")
			return []Value{mkConst(64, 0)}
		}
		et := c.Args[0].Type().Underlying().(*types.Slice).Elem()
		return []Value{in.copySlice(g, dst, src, et)}
	case "delete":
		m, ok := args[0].(*MapVal)
		if !ok {
			in.unsupported(g, "delete on opaque map")
			return nil
		}
		for _, a := range m.Alts {
			in.mapDelete(a.M, mkAnd(g, a.G), args[1])
		}
		return nil
	case "clear":
		switch x := args[0].(type) {
		case *MapVal:
			for _, a := range x.Alts {
				gg := mkAnd(g, a.G)
				for _, e := range a.M.Entries {
					e.Present = mkAnd(e.Present, mkNot(gg))
				}
			}
		case *SliceVal:
			et := c.Args[0].Type().Underlying().(*types.Slice).Elem()
			z := in.zero(et)
			for _, a := range x.Alts {
				n := int(min(a.Len.hi, uint64(len(a.Arr.kids)-a.Off)))
				for k := 0; k < n; k++ {
					in.store(a.Arr.kids[a.Off+k], mkAnd(g, a.G, mkCmp(OpUlt, mkConst(64, uint64(k)), a.Len)), z)
				}
			}
		default:
			in.unsupported(g, "clear of opaque")
		}
		return nil
	case "min", "max":
		t0, ok := args[0].(*Term)
		if !ok {
			in.unsupported(g, "min/max on non-integer")
			return []Value{args[0]}
		}
		_, signed, _ := bvWidth(c.Args[0].Type())
		r := t0
		for _, a := range args[1:] {
			t := a.(*Term)
			var less *Term
			if signed {
				less = mkCmp(OpSlt, t, r)
			} else {
				less = mkCmp(OpUlt, t, r)
			}
			if b.Name() == "max" {
				less = mkNot(mkOr(less, mkEq(t, r)))
				r = mkIte(less, t, r)
			} else {
				r = mkIte(less, t, r)
			}
		}
		return []Value{r}
	case "print", "println":
		return nil
	case "recover":
		return []Value{&IfaceVal{}}
	case "close":
		ch, ok := args[0].(*ChanVal)
		if !ok {
			in.unsupported(g, "close of opaque chan")
			return nil
		}
		in.abort(mkAnd(g, mkNot(ch.nonNil())), "panic", in.site(site), "close of nil channel")
		for _, a := range ch.Alts {
			gg := mkAnd(g, a.G)
			in.abort(mkAnd(gg, a.C.Closed), "panic", in.site(site), "close of closed channel")
			a.C.Closed = mkOr(a.C.Closed, gg)
		}
		return nil
	case "ssa:wrapnilchk":
		return []Value{args[0]}
	case "panic":
		in.abort(g, "panic", in.site(site), "panic (deferred)")
		return nil
	}
	in.unsupported(g, "builtin "+b.Name())
	return in.opaqueResults(c.Signature(), "builtin")
}

func (in *Interp) copySlice(g *Term, dst, src *SliceVal, et types.Type) Value {
	dl, sl := dst.length(), src.length()
	n := mkIte(mkCmp(OpUlt, dl, sl), dl, sl)
	maxN := min(int(min(n.hi, maxArray)), src.maxLen(), dst.maxLen())
	vals := make([]Value, maxN)
	for j := 0; j < maxN; j++ {
		vals[j] = in.sliceLoad(src, mkConst(64, uint64(j)), et)
	}
	for _, a := range dst.Alts {
		for j := 0; j < maxN; j++ {
			gj := mkAnd(g, a.G, mkCmp(OpUlt, mkConst(64, uint64(j)), n))
			if gj.IsFalse() {
				continue
			}
			if l := in.sliceElemLoc(a, j); l != nil {
				in.store(l, gj, vals[j])
			}
		}
	}
	return n
}
