package main

// Long-lived SMT solver process; terms are sent once as define-fun's.

import (
	"bufio"
	"fmt"
	"io"
	"os"
	"os/exec"
	"strconv"
	"strings"
	"time"
)

type Solver struct {
	name      string
	cmd       *exec.Cmd
	in        io.WriteCloser
	out       *bufio.Reader
	sent      map[int]bool
	Queries   int
	TotalTime time.Duration
	MaxTime   time.Duration
	Errors    int
	log       io.Writer
	timeoutMs int
}

func NewSolver(kind string, timeoutMs int) (*Solver, error) {
	var cmd *exec.Cmd
	switch kind {
	case "z3":
		cmd = exec.Command("z3", "-in", fmt.Sprintf("-t:%d", timeoutMs))
	case "z3-new":
		cmd = exec.Command("z3-new", "-in", fmt.Sprintf("-t:%d", timeoutMs))
	case "cvc5":
		cmd = exec.Command("cvc5", "--incremental", "--lang=smt2", "--produce-models", fmt.Sprintf("--tlimit-per=%d", timeoutMs))
	default:
		return nil, fmt.Errorf("unknown solver %s", kind)
	}
	in, err := cmd.StdinPipe()
	if err != nil {
		return nil, err
	}
	outp, err := cmd.StdoutPipe()
	if err != nil {
		return nil, err
	}
	cmd.Stderr = os.Stderr
	if err := cmd.Start(); err != nil {
		return nil, err
	}
	s := &Solver{name: kind, cmd: cmd, in: in, out: bufio.NewReaderSize(outp, 1<<20), sent: map[int]bool{}, timeoutMs: timeoutMs}
	if kind == "cvc5" {
		s.send("(set-logic ALL)")
	}
	s.send("(set-option :produce-models true)")
	return s, nil
}

// SetTimeout changes the per-query timeout (z3 only; other solvers keep their start-up limit).
func (s *Solver) SetTimeout(ms int) {
	if s.name == "z3" || s.name == "z3-new" {
		s.send(fmt.Sprintf("(set-option :timeout %d)", ms))
	}
}

// Reset clears all definitions and assertions (used between paths in fork mode).
func (s *Solver) Reset() {
	s.send("(reset)")
	if s.name == "cvc5" {
		s.send("(set-logic ALL)")
	}
	s.send("(set-option :produce-models true)")
	s.send(fmt.Sprintf("(set-option :timeout %d)", s.timeoutMs))
	s.sent = map[int]bool{}
}

func (s *Solver) Close() {
	if s == nil || s.cmd == nil {
		return
	}
	s.in.Close()
	done := make(chan struct{})
	go func() { s.cmd.Wait(); close(done) }()
	select {
	case <-done:
	case <-time.After(2 * time.Second):
		s.cmd.Process.Kill()
	}
	s.cmd = nil
}

func (s *Solver) send(line string) {
	if s.log != nil {
		fmt.Fprintln(s.log, line)
	}
	io.WriteString(s.in, line)
	io.WriteString(s.in, "\n")
}

// define sends all not-yet-sent definitions in the closure of t.
func (s *Solver) define(t *Term) {
	var sb strings.Builder
	s.defineInto(t, &sb)
	if sb.Len() > 0 {
		if s.log != nil {
			io.WriteString(s.log, sb.String())
		}
		io.WriteString(s.in, sb.String())
	}
}

func (s *Solver) defineInto(root *Term, sb *strings.Builder) {
	// iterative post-order
	type frame struct {
		t *Term
		i int
	}
	if s.sent[root.id] {
		return
	}
	stack := []frame{{root, 0}}
	for len(stack) > 0 {
		f := &stack[len(stack)-1]
		t := f.t
		if s.sent[t.id] {
			stack = stack[:len(stack)-1]
			continue
		}
		if f.i < len(t.args) {
			a := t.args[f.i]
			f.i++
			if !s.sent[a.id] {
				stack = append(stack, frame{a, 0})
			}
			continue
		}
		s.sent[t.id] = true
		switch t.op {
		case OpConst:
		case OpVar:
			fmt.Fprintf(sb, "(declare-const %s %s)\n", t.name, sortName(t.w))
		default:
			fmt.Fprintf(sb, "(define-fun t%d () %s %s)\n", t.id, sortName(t.w), t.body())
		}
		stack = stack[:len(stack)-1]
	}
}

func (s *Solver) readLine() (string, error) {
	line, err := s.out.ReadString('\n')
	return strings.TrimSpace(line), err
}

// readSexpr reads one balanced s-expression (or an atom line).
func (s *Solver) readSexpr() (string, error) {
	var sb strings.Builder
	depth := 0
	started := false
	for {
		line, err := s.out.ReadString('\n')
		if err != nil {
			return sb.String(), err
		}
		inStr := false
		for _, c := range line {
			switch {
			case c == '"':
				inStr = !inStr
			case inStr:
			case c == '(':
				depth++
				started = true
			case c == ')':
				depth--
			}
		}
		sb.WriteString(line)
		if strings.TrimSpace(line) == "" && !started {
			continue
		}
		if depth <= 0 {
			return strings.TrimSpace(sb.String()), nil
		}
	}
}

type Result int

const (
	Unsat Result = iota
	Sat
	Unknown
)

func (r Result) String() string { return [...]string{"unsat", "sat", "unknown"}[r] }

// Check decides satisfiability of the conjunction of the given boolean terms.
// If want is non-empty and the result is Sat, it also returns their values.
func (s *Solver) Check(conj []*Term, want []*Term) (Result, map[*Term]uint64) {
	start := time.Now()
	defer func() {
		d := time.Since(start)
		s.Queries++
		s.TotalTime += d
		if d > s.MaxTime {
			s.MaxTime = d
		}
	}()
	for _, c := range conj {
		if c.IsFalse() {
			return Unsat, nil
		}
	}
	for _, c := range conj {
		s.define(c)
	}
	for _, w := range want {
		s.define(w)
	}
	s.send("(push 1)")
	for _, c := range conj {
		if !c.IsTrue() {
			s.send("(assert " + c.ref() + ")")
		}
	}
	s.send("(check-sat)")
	line, err := s.readLine()
	if err != nil {
		fmt.Fprintf(os.Stderr, "solver %s died: %v\n", s.name, err)
		s.Errors++
		return Unknown, nil
	}
	res := Unknown
	switch {
	case line == "sat":
		res = Sat
	case line == "unsat":
		res = Unsat
	case line == "unknown" || line == "timeout":
		res = Unknown
	default:
		// error or unexpected output: inconclusive
		fmt.Fprintf(os.Stderr, "solver %s: unexpected output %q\n", s.name, line)
		s.Errors++
		if strings.HasPrefix(line, "(error") && strings.Count(line, "(") > strings.Count(line, ")") {
			s.readSexpr()
		}
		res = Unknown
	}
	var model map[*Term]uint64
	if res == Sat && len(want) > 0 {
		model = map[*Term]uint64{}
		// query in chunks
		for i := 0; i < len(want); i += 200 {
			j := min(i+200, len(want))
			var sb strings.Builder
			sb.WriteString("(get-value (")
			n := 0
			for _, w := range want[i:j] {
				if w.op == OpConst {
					model[w] = w.val
					continue
				}
				sb.WriteString(w.ref())
				sb.WriteString(" ")
				n++
			}
			sb.WriteString("))")
			if n == 0 {
				continue
			}
			s.send(sb.String())
			resp, err := s.readSexpr()
			if err != nil || strings.HasPrefix(resp, "(error") {
				fmt.Fprintf(os.Stderr, "solver %s: get-value failed: %s %v\n", s.name, resp, err)
				s.Errors++
				res = Unknown
				break
			}
			vals := parseValues(resp)
			k := 0
			for _, w := range want[i:j] {
				if w.op == OpConst {
					continue
				}
				if k < len(vals) {
					model[w] = vals[k]
				}
				k++
			}
		}
	}
	s.send("(pop 1)")
	return res, model
}

// parseValues extracts the value of each pair of a get-value response, in order.
func parseValues(resp string) []uint64 {
	// tokenise
	var toks []string
	cur := ""
	flush := func() {
		if cur != "" {
			toks = append(toks, cur)
			cur = ""
		}
	}
	for _, c := range resp {
		switch c {
		case '(', ')':
			flush()
			toks = append(toks, string(c))
		case ' ', '\n', '\t', '\r':
			flush()
		default:
			cur += string(c)
		}
	}
	flush()
	// grammar: ( (name value)* ) ; value = true|false|#x..|#b..|(_ bvN w)
	var out []uint64
	i := 1
	for i < len(toks) && toks[i] == "(" {
		i++ // (
		// skip name (may itself be an s-expr? names are atoms here)
		i++
		// value
		switch {
		case toks[i] == "true":
			out = append(out, 1)
			i++
		case toks[i] == "false":
			out = append(out, 0)
			i++
		case strings.HasPrefix(toks[i], "#x"):
			v, _ := strconv.ParseUint(toks[i][2:], 16, 64)
			out = append(out, v)
			i++
		case strings.HasPrefix(toks[i], "#b"):
			v, _ := strconv.ParseUint(toks[i][2:], 2, 64)
			out = append(out, v)
			i++
		case toks[i] == "(":
			// (_ bvN w)
			v, _ := strconv.ParseUint(strings.TrimPrefix(toks[i+2], "bv"), 10, 64)
			out = append(out, v)
			i += 5
		default:
			out = append(out, 0)
			i++
		}
		i++ // )
	}
	return out
}

// DumpStandalone writes a self-contained SMT-LIB2 script deciding the conjunction.
func DumpStandalone(path string, conj []*Term) error {
	tmp := &Solver{sent: map[int]bool{}}
	var sb strings.Builder
	sb.WriteString("(set-logic ALL)\n")
	for _, c := range conj {
		tmp.defineInto(c, &sb)
	}
	for _, c := range conj {
		fmt.Fprintf(&sb, "(assert %s)\n", c.ref())
	}
	sb.WriteString("(check-sat)\n")
	return os.WriteFile(path, []byte(sb.String()), 0o644)
}

// RunStandalone runs another solver binary on a dumped script.
func RunStandalone(kind, path string, timeoutS int) (Result, time.Duration) {
	var cmd *exec.Cmd
	switch kind {
	case "z3", "z3-new":
		cmd = exec.Command(kind, fmt.Sprintf("-T:%d", timeoutS), path)
	case "cvc5":
		cmd = exec.Command("cvc5", fmt.Sprintf("--tlimit=%d", timeoutS*1000), path)
	}
	start := time.Now()
	out, _ := cmd.CombinedOutput()
	d := time.Since(start)
	txt := strings.TrimSpace(string(out))
	if strings.Contains(txt, "(error") {
		return Unknown, d
	}
	first := strings.SplitN(txt, "\n", 2)[0]
	switch first {
	case "sat":
		return Sat, d
	case "unsat":
		return Unsat, d
	}
	return Unknown, d
}
