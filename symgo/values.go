package main

// Symbolic values: SMT terms for scalars, guarded unions for everything else.

import (
	"fmt"
	"go/types"
	"sort"
	"strings"

	"golang.org/x/tools/go/ssa"
)

type Value interface{}

// ---- strings: guarded union of concrete strings (guards exclusive and, on live paths, exhaustive)
type StrAlt struct {
	G   *Term
	S   string
	Opq bool // opaque (formatting result etc.): content unknown
}
// StrVal is a string given by an interned code term; Dom over-approximates the possible codes.
type StrVal struct {
	Code *Term
	Dom  []uint32
}

const strW = 16

var (
	strTab []string
	strOpq []bool
	strIdx = map[string]uint32{}
)

func intern(s string, opq bool) uint32 {
	k := s
	if opq {
		k = "\x00opq:" + s
	}
	if c, ok := strIdx[k]; ok {
		return c
	}
	c := uint32(len(strTab))
	strTab = append(strTab, s)
	strOpq = append(strOpq, opq)
	strIdx[k] = c
	return c
}

func opaqueStr(why string) *StrVal {
	c := intern("\x00opaque:"+why, true)
	return &StrVal{Code: mkConst(strW, uint64(c)), Dom: []uint32{c}}
}

// Alts expands the code term into guarded concrete alternatives.
func (s *StrVal) Alts() []StrAlt {
	if s.Code.IsConst() {
		c := uint32(s.Code.val)
		return []StrAlt{{G: tTrue, S: strTab[c], Opq: strOpq[c]}}
	}
	out := make([]StrAlt, 0, len(s.Dom))
	for _, d := range s.Dom {
		g := mkEq(s.Code, mkConst(strW, uint64(d)))
		if g.IsFalse() {
			continue
		}
		out = append(out, StrAlt{G: g, S: strTab[d], Opq: strOpq[d]})
	}
	return out
}

// tighten recomputes Dom from the code term when it is a tree of constants.
func (s *StrVal) tighten() *StrVal {
	if s.Code.leaves > 0 && s.Code.leaves <= 64 {
		seen := map[uint32]bool{}
		var dom []uint32
		var walk func(t *Term)
		walk = func(t *Term) {
			if t.op == OpIte {
				walk(t.args[1])
				walk(t.args[2])
				return
			}
			c := uint32(t.val)
			if !seen[c] {
				seen[c] = true
				dom = append(dom, c)
			}
		}
		walk(s.Code)
		s.Dom = dom
	}
	return s
}

// ---- pointers: union of locations; empty union = nil
type PtrAlt struct {
	G *Term
	L *Loc
}
type PtrVal struct{ Alts []PtrAlt }

// ---- slices
type SliceAlt struct {
	G        *Term
	Arr      *Loc // array location (kids = elements)
	Off      int
	Len, Cap *Term // 64-bit
}
type SliceVal struct{ Alts []SliceAlt }

// ---- maps
type MapEntry struct {
	Key     Value
	KeyStr  string // canonical form for concrete keys ("" if symbolic)
	Present *Term
	Val     Value
}
type MapObj struct {
	id      int
	KT, VT  types.Type
	Entries []*MapEntry
}
type MapAlt struct {
	G *Term
	M *MapObj
}
type MapVal struct{ Alts []MapAlt }

// ---- channels
type ChanObj struct {
	id     int
	ET     types.Type
	Cap    int
	Closed *Term
	// buffered content (only concrete-length FIFO with guarded presence is modelled)
	Buf []chanItem
	// Ready: environment boolean (e.g. time.After): receive may succeed without close
	EnvReady *Term
	Server   *FuncVal // rendezvous server registered by vServe
	Reply    []chanItem
	Name     string
}
type chanItem struct {
	G *Term
	V Value
}
type ChanAlt struct {
	G *Term
	C *ChanObj
}
type ChanVal struct{ Alts []ChanAlt }

// ---- functions
type FuncAlt struct {
	G      *Term
	Fn     *ssa.Function
	Binds  []Value
	Native string // name of a native intrinsic closure
	NatArg []Value
}
type FuncVal struct{ Alts []FuncAlt }

// ---- interfaces
type IfaceAlt struct {
	G *Term
	T types.Type // dynamic type (nil for native objects)
	V Value
}
type IfaceVal struct{ Alts []IfaceAlt }

// ---- aggregates (struct / array values, multi-value results)
type TupleVal struct{ Elems []Value }

// ---- float64 values known to hold an integer (int -> float conversions, math.Max/Min of those)
type FloatInt struct{ T *Term } // 64-bit signed

// ---- unknown / unsupported value
type Opaque struct{ Why string }

// ---- native objects (context, timers, ...)
type NativeObj struct {
	id     int
	Kind   string
	Fields map[string]Value
	Locs   map[string]*Loc
}

// Loc is a storage location tree.
type Loc struct {
	id   int
	T    types.Type
	val  Value
	kids []*Loc
	name string
}

var locCount int

func typeKey(t types.Type) string {
	return types.TypeString(t, nil)
}

func isAggregate(t types.Type) bool {
	switch t.Underlying().(type) {
	case *types.Struct, *types.Array:
		return true
	}
	return false
}

const maxArray = 1 << 14

func (in *Interp) newLoc(t types.Type, name string) *Loc {
	locCount++
	l := &Loc{id: locCount, T: t, name: name}
	switch u := t.Underlying().(type) {
	case *types.Struct:
		l.kids = make([]*Loc, u.NumFields())
		for i := range l.kids {
			l.kids[i] = in.newLoc(u.Field(i).Type(), "")
		}
	case *types.Array:
		n := int(u.Len())
		if n > maxArray {
			in.unsupported(tTrue, fmt.Sprintf("array too large: %d", n))
			n = maxArray
		}
		l.kids = make([]*Loc, n)
		for i := range l.kids {
			l.kids[i] = in.newLoc(u.Elem(), "")
		}
	default:
		l.val = in.zero(t)
	}
	return l
}

// newArray allocates an array location of n elements of type et.
func (in *Interp) newArray(et types.Type, n int) *Loc {
	if n > maxArray {
		in.unsupported(tTrue, fmt.Sprintf("array too large: %d", n))
		n = maxArray
	}
	locCount++
	l := &Loc{id: locCount, T: types.NewArray(et, int64(n))}
	l.kids = make([]*Loc, n)
	for i := range l.kids {
		l.kids[i] = in.newLoc(et, "")
	}
	return l
}

func bvWidth(t types.Type) (w uint8, signed bool, ok bool) {
	b, isB := t.Underlying().(*types.Basic)
	if !isB {
		return 0, false, false
	}
	switch b.Kind() {
	case types.Bool, types.UntypedBool:
		return 0, false, true
	case types.Int8:
		return 8, true, true
	case types.Int16:
		return 16, true, true
	case types.Int32, types.UntypedRune:
		return 32, true, true
	case types.Int64, types.Int, types.UntypedInt:
		return 64, true, true
	case types.Uint8:
		return 8, false, true
	case types.Uint16:
		return 16, false, true
	case types.Uint32:
		return 32, false, true
	case types.Uint64, types.Uint, types.Uintptr:
		return 64, false, true
	}
	return 0, false, false
}

func isString(t types.Type) bool {
	b, ok := t.Underlying().(*types.Basic)
	return ok && b.Info()&types.IsString != 0
}

func isFloat(t types.Type) bool {
	b, ok := t.Underlying().(*types.Basic)
	return ok && b.Info()&(types.IsFloat|types.IsComplex) != 0
}

func (in *Interp) zero(t types.Type) Value {
	switch u := t.Underlying().(type) {
	case *types.Basic:
		if w, _, ok := bvWidth(t); ok {
			return mkConst(w, 0)
		}
		if isString(t) {
			return strConst("")
		}
		if u.Kind() == types.UnsafePointer {
			return &PtrVal{}
		}
		if u.Kind() == types.UntypedNil {
			return &PtrVal{}
		}
		return &Opaque{"float zero"}
	case *types.Pointer:
		return &PtrVal{}
	case *types.Slice:
		return &SliceVal{}
	case *types.Map:
		return &MapVal{}
	case *types.Chan:
		return &ChanVal{}
	case *types.Signature:
		return &FuncVal{}
	case *types.Interface:
		return &IfaceVal{}
	case *types.Struct:
		tv := &TupleVal{Elems: make([]Value, u.NumFields())}
		for i := range tv.Elems {
			tv.Elems[i] = in.zero(u.Field(i).Type())
		}
		return tv
	case *types.Array:
		n := int(u.Len())
		if n > maxArray {
			n = maxArray
		}
		tv := &TupleVal{Elems: make([]Value, n)}
		for i := range tv.Elems {
			tv.Elems[i] = in.zero(u.Elem())
		}
		return tv
	case *types.Tuple:
		tv := &TupleVal{Elems: make([]Value, u.Len())}
		for i := range tv.Elems {
			tv.Elems[i] = in.zero(u.At(i).Type())
		}
		return tv
	case *types.TypeParam:
		return &Opaque{"type param zero"}
	}
	return &Opaque{"zero of " + t.String()}
}

func strConst(s string) *StrVal {
	c := intern(s, false)
	return &StrVal{Code: mkConst(strW, uint64(c)), Dom: []uint32{c}}
}

func ptrTo(l *Loc) *PtrVal { return &PtrVal{Alts: []PtrAlt{{G: tTrue, L: l}}} }

// ---- load / store

func (in *Interp) load(l *Loc) Value {
	if l.kids != nil {
		tv := &TupleVal{Elems: make([]Value, len(l.kids))}
		for i, k := range l.kids {
			tv.Elems[i] = in.load(k)
		}
		return tv
	}
	return l.val
}

func (in *Interp) store(l *Loc, g *Term, v Value) {
	if g.IsFalse() {
		return
	}
	if l.kids != nil {
		tv, ok := v.(*TupleVal)
		if !ok {
			if _, isOp := v.(*Opaque); isOp {
				for _, k := range l.kids {
					in.store(k, g, v)
				}
				return
			}
			panic(fmt.Sprintf("store: aggregate loc %s gets %T", l.T, v))
		}
		for i, k := range l.kids {
			if i < len(tv.Elems) {
				in.store(k, g, tv.Elems[i])
			}
		}
		return
	}
	l.val = in.merge(g, v, l.val)
}

// ---- union normalisation and merging

func normStr(alts []StrAlt) *StrVal {
	var code *Term
	var dom []uint32
	seen := map[uint32]bool{}
	for i := len(alts) - 1; i >= 0; i-- {
		a := alts[i]
		if a.G.IsFalse() {
			continue
		}
		c := intern(a.S, a.Opq)
		if !seen[c] {
			seen[c] = true
			dom = append(dom, c)
		}
		ct := mkConst(strW, uint64(c))
		if code == nil {
			code = ct
		} else {
			code = mkIte(a.G, ct, code)
		}
	}
	if code == nil {
		return strConst("")
	}
	return (&StrVal{Code: code, Dom: dom}).tighten()
}

func normPtr(alts []PtrAlt) *PtrVal {
	idx := map[*Loc]int{}
	var out []PtrAlt
	for _, a := range alts {
		if a.G.IsFalse() {
			continue
		}
		if i, ok := idx[a.L]; ok {
			out[i].G = mkOr(out[i].G, a.G)
		} else {
			idx[a.L] = len(out)
			out = append(out, a)
		}
	}
	return &PtrVal{Alts: out}
}

type sliceKey struct {
	arr *Loc
	off int
}

func normSlice(alts []SliceAlt) *SliceVal {
	idx := map[sliceKey]int{}
	var out []SliceAlt
	for _, a := range alts {
		if a.G.IsFalse() {
			continue
		}
		k := sliceKey{a.Arr, a.Off}
		if i, ok := idx[k]; ok {
			o := &out[i]
			o.Len = mkIte(a.G, a.Len, o.Len)
			o.Cap = mkIte(a.G, a.Cap, o.Cap)
			o.G = mkOr(o.G, a.G)
		} else {
			idx[k] = len(out)
			out = append(out, a)
		}
	}
	return &SliceVal{Alts: out}
}

func normMap(alts []MapAlt) *MapVal {
	idx := map[*MapObj]int{}
	var out []MapAlt
	for _, a := range alts {
		if a.G.IsFalse() {
			continue
		}
		if i, ok := idx[a.M]; ok {
			out[i].G = mkOr(out[i].G, a.G)
		} else {
			idx[a.M] = len(out)
			out = append(out, a)
		}
	}
	return &MapVal{Alts: out}
}

func normChan(alts []ChanAlt) *ChanVal {
	idx := map[*ChanObj]int{}
	var out []ChanAlt
	for _, a := range alts {
		if a.G.IsFalse() {
			continue
		}
		if i, ok := idx[a.C]; ok {
			out[i].G = mkOr(out[i].G, a.G)
		} else {
			idx[a.C] = len(out)
			out = append(out, a)
		}
	}
	return &ChanVal{Alts: out}
}

func sameBinds(a, b []Value) bool {
	if len(a) != len(b) {
		return false
	}
	for i := range a {
		if !identical(a[i], b[i]) {
			return false
		}
	}
	return true
}

// identical is a cheap syntactic identity test on values.
func identical(a, b Value) bool {
	if a == b {
		return true
	}
	switch x := a.(type) {
	case *Term:
		return false
	case *StrVal:
		y, ok := b.(*StrVal)
		return ok && x.Code == y.Code
	case *PtrVal:
		y, ok := b.(*PtrVal)
		if !ok || len(x.Alts) != len(y.Alts) {
			return false
		}
		for i := range x.Alts {
			if x.Alts[i] != y.Alts[i] {
				return false
			}
		}
		return true
	case *SliceVal:
		y, ok := b.(*SliceVal)
		if !ok || len(x.Alts) != len(y.Alts) {
			return false
		}
		for i := range x.Alts {
			if x.Alts[i] != y.Alts[i] {
				return false
			}
		}
		return true
	case *MapVal:
		y, ok := b.(*MapVal)
		if !ok || len(x.Alts) != len(y.Alts) {
			return false
		}
		for i := range x.Alts {
			if x.Alts[i] != y.Alts[i] {
				return false
			}
		}
		return true
	case *ChanVal:
		y, ok := b.(*ChanVal)
		if !ok || len(x.Alts) != len(y.Alts) {
			return false
		}
		for i := range x.Alts {
			if x.Alts[i] != y.Alts[i] {
				return false
			}
		}
		return true
	case *FuncVal:
		y, ok := b.(*FuncVal)
		if !ok || len(x.Alts) != len(y.Alts) {
			return false
		}
		for i := range x.Alts {
			p, q := x.Alts[i], y.Alts[i]
			if p.G != q.G || p.Fn != q.Fn || p.Native != q.Native || !sameBinds(p.Binds, q.Binds) || !sameBinds(p.NatArg, q.NatArg) {
				return false
			}
		}
		return true
	case *IfaceVal:
		y, ok := b.(*IfaceVal)
		if !ok || len(x.Alts) != len(y.Alts) {
			return false
		}
		for i := range x.Alts {
			p, q := x.Alts[i], y.Alts[i]
			if p.G != q.G || !sameType(p.T, q.T) || !identical(p.V, q.V) {
				return false
			}
		}
		return true
	case *TupleVal:
		y, ok := b.(*TupleVal)
		if !ok || len(x.Elems) != len(y.Elems) {
			return false
		}
		for i := range x.Elems {
			if !identical(x.Elems[i], y.Elems[i]) {
				return false
			}
		}
		return true
	}
	return false
}

func sameType(a, b types.Type) bool {
	if a == nil || b == nil {
		return a == b
	}
	return a == b || types.Identical(a, b)
}

func normFunc(alts []FuncAlt) *FuncVal {
	var out []FuncAlt
outer:
	for _, a := range alts {
		if a.G.IsFalse() {
			continue
		}
		for i := range out {
			o := &out[i]
			if o.Fn == a.Fn && o.Native == a.Native && sameBinds(o.Binds, a.Binds) && sameBinds(o.NatArg, a.NatArg) {
				o.G = mkOr(o.G, a.G)
				continue outer
			}
		}
		out = append(out, a)
	}
	return &FuncVal{Alts: out}
}

func (in *Interp) normIface(alts []IfaceAlt) *IfaceVal {
	var out []IfaceAlt
outer:
	for _, a := range alts {
		if a.G.IsFalse() {
			continue
		}
		for i := range out {
			o := &out[i]
			if sameType(o.T, a.T) {
				if o.T == nil && o.V != a.V {
					continue // distinct native objects
				}
				o.V = in.merge(a.G, a.V, o.V)
				o.G = mkOr(o.G, a.G)
				continue outer
			}
		}
		out = append(out, a)
	}
	return &IfaceVal{Alts: out}
}

// merge returns ite(g, a, b).
func (in *Interp) merge(g *Term, a, b Value) Value {
	if g.IsTrue() || b == nil {
		return a
	}
	if g.IsFalse() || a == nil {
		return b
	}
	if a == b {
		return a
	}
	ng := mkNot(g)
	switch x := a.(type) {
	case *Term:
		y, ok := b.(*Term)
		if !ok {
			return &Opaque{"merge term/opaque"}
		}
		if x.w != y.w {
			panic(fmt.Sprintf("merge width mismatch %d %d", x.w, y.w))
		}
		return mkIte(g, x, y)
	case *StrVal:
		y, ok := b.(*StrVal)
		if !ok {
			return &Opaque{"merge str/opaque"}
		}
		if x.Code == y.Code {
			return x
		}
		dom := append([]uint32(nil), x.Dom...)
		for _, d := range y.Dom {
			found := false
			for _, e := range x.Dom {
				if e == d {
					found = true
					break
				}
			}
			if !found {
				dom = append(dom, d)
			}
		}
		return (&StrVal{Code: mkIte(g, x.Code, y.Code), Dom: dom}).tighten()
	case *PtrVal:
		y, ok := b.(*PtrVal)
		if !ok {
			return &Opaque{"merge ptr/opaque"}
		}
		if identical(x, y) {
			return x
		}
		alts := make([]PtrAlt, 0, len(x.Alts)+len(y.Alts))
		for _, p := range x.Alts {
			alts = append(alts, PtrAlt{mkAnd(g, p.G), p.L})
		}
		for _, p := range y.Alts {
			alts = append(alts, PtrAlt{mkAnd(ng, p.G), p.L})
		}
		return normPtr(alts)
	case *SliceVal:
		y, ok := b.(*SliceVal)
		if !ok {
			return &Opaque{"merge slice/opaque"}
		}
		if identical(x, y) {
			return x
		}
		// merge by (arr, off) keeping exclusive guards
		alts := make([]SliceAlt, 0, len(x.Alts)+len(y.Alts))
		idx := map[sliceKey]int{}
		for _, p := range x.Alts {
			gg := mkAnd(g, p.G)
			if gg.IsFalse() {
				continue
			}
			idx[sliceKey{p.Arr, p.Off}] = len(alts)
			alts = append(alts, SliceAlt{gg, p.Arr, p.Off, p.Len, p.Cap})
		}
		for _, p := range y.Alts {
			gg := mkAnd(ng, p.G)
			if gg.IsFalse() {
				continue
			}
			if i, ok := idx[sliceKey{p.Arr, p.Off}]; ok {
				o := &alts[i]
				o.Len = mkIte(g, o.Len, p.Len)
				o.Cap = mkIte(g, o.Cap, p.Cap)
				o.G = mkOr(o.G, gg)
			} else {
				alts = append(alts, SliceAlt{gg, p.Arr, p.Off, p.Len, p.Cap})
			}
		}
		return &SliceVal{Alts: alts}
	case *MapVal:
		y, ok := b.(*MapVal)
		if !ok {
			return &Opaque{"merge map/opaque"}
		}
		if identical(x, y) {
			return x
		}
		alts := make([]MapAlt, 0, len(x.Alts)+len(y.Alts))
		for _, p := range x.Alts {
			alts = append(alts, MapAlt{mkAnd(g, p.G), p.M})
		}
		for _, p := range y.Alts {
			alts = append(alts, MapAlt{mkAnd(ng, p.G), p.M})
		}
		return normMap(alts)
	case *ChanVal:
		y, ok := b.(*ChanVal)
		if !ok {
			return &Opaque{"merge chan/opaque"}
		}
		if identical(x, y) {
			return x
		}
		alts := make([]ChanAlt, 0, len(x.Alts)+len(y.Alts))
		for _, p := range x.Alts {
			alts = append(alts, ChanAlt{mkAnd(g, p.G), p.C})
		}
		for _, p := range y.Alts {
			alts = append(alts, ChanAlt{mkAnd(ng, p.G), p.C})
		}
		return normChan(alts)
	case *FuncVal:
		y, ok := b.(*FuncVal)
		if !ok {
			return &Opaque{"merge func/opaque"}
		}
		if identical(x, y) {
			return x
		}
		alts := make([]FuncAlt, 0, len(x.Alts)+len(y.Alts))
		for _, p := range x.Alts {
			p.G = mkAnd(g, p.G)
			alts = append(alts, p)
		}
		for _, p := range y.Alts {
			p.G = mkAnd(ng, p.G)
			alts = append(alts, p)
		}
		return normFunc(alts)
	case *IfaceVal:
		y, ok := b.(*IfaceVal)
		if !ok {
			return &Opaque{"merge iface/opaque"}
		}
		if identical(x, y) {
			return x
		}
		alts := make([]IfaceAlt, 0, len(x.Alts)+len(y.Alts))
		for _, p := range x.Alts {
			p.G = mkAnd(g, p.G)
			alts = append(alts, p)
		}
		for _, p := range y.Alts {
			p.G = mkAnd(ng, p.G)
			alts = append(alts, p)
		}
		return in.normIface(alts)
	case *TupleVal:
		y, ok := b.(*TupleVal)
		if !ok {
			return &Opaque{"merge tuple/opaque"}
		}
		n := len(x.Elems)
		if len(y.Elems) != n {
			panic("merge tuple arity")
		}
		same := true
		out := &TupleVal{Elems: make([]Value, n)}
		for i := range out.Elems {
			out.Elems[i] = in.merge(g, x.Elems[i], y.Elems[i])
			if out.Elems[i] != x.Elems[i] {
				same = false
			}
		}
		if same {
			return x
		}
		return out
	case *FloatInt:
		y, ok := b.(*FloatInt)
		if !ok {
			return &Opaque{"merge float"}
		}
		return &FloatInt{mkIte(g, x.T, y.T)}
	case *Opaque:
		return x
	case *NativeObj:
		if a == b {
			return a
		}
		return &Opaque{"merge native objects"}
	}
	panic(fmt.Sprintf("merge: unhandled %T", a))
}

// restrict returns the value with every alternative guard conjoined with g (used when
// a union value flows through a guarded context and pruning helps).
func anyGuard[T any](alts []T, g func(T) *Term) *Term {
	var gs []*Term
	for _, a := range alts {
		gs = append(gs, g(a))
	}
	return mkOr(gs...)
}

func (v *PtrVal) nonNil() *Term   { return anyGuard(v.Alts, func(a PtrAlt) *Term { return a.G }) }
func (v *SliceVal) nonNil() *Term { return anyGuard(v.Alts, func(a SliceAlt) *Term { return a.G }) }
func (v *MapVal) nonNil() *Term   { return anyGuard(v.Alts, func(a MapAlt) *Term { return a.G }) }
func (v *ChanVal) nonNil() *Term  { return anyGuard(v.Alts, func(a ChanAlt) *Term { return a.G }) }
func (v *FuncVal) nonNil() *Term  { return anyGuard(v.Alts, func(a FuncAlt) *Term { return a.G }) }
func (v *IfaceVal) nonNil() *Term { return anyGuard(v.Alts, func(a IfaceAlt) *Term { return a.G }) }

func (v *SliceVal) length() *Term {
	r := mkConst(64, 0)
	for i := len(v.Alts) - 1; i >= 0; i-- {
		r = mkIte(v.Alts[i].G, v.Alts[i].Len, r)
	}
	return r
}

// maxLen is a sound upper bound of the length: interval bound capped by the backing arrays.
func (v *SliceVal) maxLen() int {
	m := 0
	for _, a := range v.Alts {
		n := len(a.Arr.kids) - a.Off
		if n < 0 {
			n = 0
		}
		if a.Len.hi < uint64(n) {
			n = int(a.Len.hi)
		}
		if n > m {
			m = n
		}
	}
	return m
}

func (v *SliceVal) capacity() *Term {
	r := mkConst(64, 0)
	for i := len(v.Alts) - 1; i >= 0; i-- {
		r = mkIte(v.Alts[i].G, v.Alts[i].Cap, r)
	}
	return r
}

// ---- equality

func (in *Interp) eq(a, b Value) *Term {
	switch x := a.(type) {
	case *Term:
		y, ok := b.(*Term)
		if !ok {
			in.unsupported(tTrue, "eq term/opaque")
			return tFalse
		}
		return mkEq(x, y)
	case *StrVal:
		y, ok := b.(*StrVal)
		if !ok {
			in.unsupported(tTrue, "eq str/opaque")
			return tFalse
		}
		for _, sv := range []*StrVal{x, y} {
			for _, d := range sv.Dom {
				if strOpq[d] {
					in.unsupported(mkEq(sv.Code, mkConst(strW, uint64(d))), "comparison of opaque string")
				}
			}
		}
		return mkEq(x.Code, y.Code)
	case *PtrVal:
		y, ok := b.(*PtrVal)
		if !ok {
			in.unsupported(tTrue, "eq ptr/opaque")
			return tFalse
		}
		gs := []*Term{mkAnd(mkNot(x.nonNil()), mkNot(y.nonNil()))}
		for _, p := range x.Alts {
			for _, q := range y.Alts {
				if p.L == q.L {
					gs = append(gs, mkAnd(p.G, q.G))
				}
			}
		}
		return mkOr(gs...)
	case *SliceVal:
		y, ok := b.(*SliceVal)
		if !ok {
			return tFalse
		}
		// only comparison with nil is legal
		return mkAnd(mkNot(x.nonNil()), mkNot(y.nonNil()))
	case *MapVal:
		y, ok := b.(*MapVal)
		if !ok {
			return tFalse
		}
		return mkAnd(mkNot(x.nonNil()), mkNot(y.nonNil()))
	case *FuncVal:
		y, ok := b.(*FuncVal)
		if !ok {
			return tFalse
		}
		return mkAnd(mkNot(x.nonNil()), mkNot(y.nonNil()))
	case *ChanVal:
		y, ok := b.(*ChanVal)
		if !ok {
			return tFalse
		}
		gs := []*Term{mkAnd(mkNot(x.nonNil()), mkNot(y.nonNil()))}
		for _, p := range x.Alts {
			for _, q := range y.Alts {
				if p.C == q.C {
					gs = append(gs, mkAnd(p.G, q.G))
				}
			}
		}
		return mkOr(gs...)
	case *IfaceVal:
		y, ok := b.(*IfaceVal)
		if !ok {
			in.unsupported(tTrue, "eq iface/opaque")
			return tFalse
		}
		gs := []*Term{mkAnd(mkNot(x.nonNil()), mkNot(y.nonNil()))}
		for _, p := range x.Alts {
			for _, q := range y.Alts {
				if sameType(p.T, q.T) {
					if p.T == nil {
						if p.V == q.V {
							gs = append(gs, mkAnd(p.G, q.G))
						}
						continue
					}
					gs = append(gs, mkAnd(p.G, q.G, in.eq(p.V, q.V)))
				}
			}
		}
		return mkOr(gs...)
	case *TupleVal:
		y, ok := b.(*TupleVal)
		if !ok {
			in.unsupported(tTrue, "eq tuple/opaque")
			return tFalse
		}
		gs := make([]*Term, len(x.Elems))
		for i := range gs {
			gs[i] = in.eq(x.Elems[i], y.Elems[i])
		}
		return mkAnd(gs...)
	case *NativeObj:
		return mkBool(a == b)
	case *Opaque:
		in.unsupported(tTrue, "comparison of opaque value: "+x.Why)
		return tFalse
	}
	panic(fmt.Sprintf("eq: unhandled %T", a))
}

// concreteKey returns a canonical string for a fully concrete comparable value.
func concreteKey(v Value) (string, bool) {
	switch x := v.(type) {
	case *Term:
		if x.op == OpConst {
			return fmt.Sprintf("i%d:%d", x.w, x.val), true
		}
	case *StrVal:
		if x.Code.IsConst() && !strOpq[x.Code.val] {
			return "s:" + strTab[x.Code.val], true
		}
	case *PtrVal:
		if len(x.Alts) == 0 {
			return "p:nil", true
		}
		if len(x.Alts) == 1 && x.Alts[0].G.IsTrue() {
			return fmt.Sprintf("p:%d", x.Alts[0].L.id), true
		}
	case *ChanVal:
		if len(x.Alts) == 0 {
			return "c:nil", true
		}
		if len(x.Alts) == 1 && x.Alts[0].G.IsTrue() {
			return fmt.Sprintf("c:%d", x.Alts[0].C.id), true
		}
	case *IfaceVal:
		if len(x.Alts) == 0 {
			return "if:nil", true
		}
		if len(x.Alts) == 1 && x.Alts[0].G.IsTrue() {
			if x.Alts[0].T == nil {
				if n, ok := x.Alts[0].V.(*NativeObj); ok {
					return fmt.Sprintf("if:native%d", n.id), true
				}
				return "", false
			}
			k, ok := concreteKey(x.Alts[0].V)
			if ok {
				return "if:" + typeKey(x.Alts[0].T) + ":" + k, true
			}
		}
	case *TupleVal:
		var parts []string
		for _, e := range x.Elems {
			k, ok := concreteKey(e)
			if !ok {
				return "", false
			}
			parts = append(parts, k)
		}
		return "t:(" + strings.Join(parts, ",") + ")", true
	}
	return "", false
}

// ---- diagnostics

func valString(v Value) string {
	switch x := v.(type) {
	case nil:
		return "<nil>"
	case *Term:
		return x.String()
	case *StrVal:
		var p []string
		for _, a := range x.Alts() {
			if a.G.IsTrue() {
				p = append(p, fmt.Sprintf("%q", a.S))
			} else {
				p = append(p, fmt.Sprintf("%s?%q", a.G.str(1), a.S))
			}
		}
		return "str{" + strings.Join(p, "|") + "}"
	case *PtrVal:
		var p []string
		for _, a := range x.Alts {
			p = append(p, fmt.Sprintf("%s?&L%d", a.G.str(1), a.L.id))
		}
		return "ptr{" + strings.Join(p, "|") + "}"
	case *SliceVal:
		var p []string
		for _, a := range x.Alts {
			p = append(p, fmt.Sprintf("%s?L%d+%d len=%s", a.G.str(1), a.Arr.id, a.Off, a.Len.str(2)))
		}
		return "slice{" + strings.Join(p, "|") + "}"
	case *TupleVal:
		var p []string
		for _, e := range x.Elems {
			p = append(p, valString(e))
		}
		return "(" + strings.Join(p, ", ") + ")"
	case *IfaceVal:
		var p []string
		for _, a := range x.Alts {
			tn := "native"
			if a.T != nil {
				tn = a.T.String()
			}
			p = append(p, fmt.Sprintf("%s?%s:%s", a.G.str(1), tn, valString(a.V)))
		}
		return "iface{" + strings.Join(p, "|") + "}"
	case *Opaque:
		return "opaque(" + x.Why + ")"
	}
	return fmt.Sprintf("%T", v)
}

func sortedKeys[V any](m map[string]V) []string {
	ks := make([]string, 0, len(m))
	for k := range m {
		ks = append(ks, k)
	}
	sort.Strings(ks)
	return ks
}
