package main

import "fmt"

func runSelftest() {
	a := mkVar("a", 0)
	b := mkVar("b", 0)
	x := mkOr(mkAnd(a, b), mkAnd(a, mkNot(b)))
	fmt.Println("resolution:", x == a)
	s, err := NewSolver("z3", 5000)
	if err != nil {
		panic(err)
	}
	v := mkVar("v", 64)
	q := mkEq(mkBin(OpAdd, v, mkConst(64, 1)), mkConst(64, 0))
	r, m := s.Check([]*Term{q}, []*Term{v})
	fmt.Println(r, m[v])
	s.Close()
}
