package main

// Per-function CFG analysis: natural loops, region execution orders, post-dominators.

import (
	"fmt"

	"golang.org/x/tools/go/ssa"
)

type Loop struct {
	id       int
	header   *ssa.BasicBlock
	blocks   map[*ssa.BasicBlock]bool
	parent   *Loop
	children []*Loop
	order    []regionNode // body region (header first)
	liveOut  []ssa.Value  // values defined in the loop and used outside of it
	depth    int
}

type regionNode struct {
	b *ssa.BasicBlock
	l *Loop
}

type FuncInfo struct {
	fn        *ssa.Function
	loops     []*Loop
	innermost []*Loop // by block index
	order     []regionNode
	restore   []int // block index whose guard can be reused (-1 none)
	err       string
	ninstr    int
}

func (l *Loop) contains(b *ssa.BasicBlock) bool { return l != nil && l.blocks[b] }

func analyze(fn *ssa.Function) *FuncInfo {
	fi := &FuncInfo{fn: fn}
	n := len(fn.Blocks)
	fi.innermost = make([]*Loop, n)
	for _, b := range fn.Blocks {
		fi.ninstr += len(b.Instrs)
	}
	// reachable blocks only (go/ssa removes unreachable ones, but be safe)
	// back edges
	byHeader := map[*ssa.BasicBlock]*Loop{}
	for _, b := range fn.Blocks {
		for _, s := range b.Succs {
			if s.Dominates(b) {
				l := byHeader[s]
				if l == nil {
					l = &Loop{id: len(fi.loops), header: s, blocks: map[*ssa.BasicBlock]bool{s: true}}
					byHeader[s] = l
					fi.loops = append(fi.loops, l)
				}
				// collect natural loop body
				stack := []*ssa.BasicBlock{b}
				for len(stack) > 0 {
					x := stack[len(stack)-1]
					stack = stack[:len(stack)-1]
					if l.blocks[x] {
						continue
					}
					l.blocks[x] = true
					for _, p := range x.Preds {
						stack = append(stack, p)
					}
				}
			} else if !dominatesOrForward(fn, b, s) {
				// retreating non-back edge => irreducible
			}
		}
	}
	// check reducibility: every block in loop must be dominated by header
	for _, l := range fi.loops {
		for b := range l.blocks {
			if !l.header.Dominates(b) {
				fi.err = fmt.Sprintf("irreducible loop at block %d", l.header.Index)
			}
		}
	}
	// nesting: parent = smallest strictly containing loop
	for _, l := range fi.loops {
		for _, p := range fi.loops {
			if p == l || !p.blocks[l.header] || len(p.blocks) <= len(l.blocks) {
				continue
			}
			if l.parent == nil || len(p.blocks) < len(l.parent.blocks) {
				l.parent = p
			}
		}
	}
	for _, l := range fi.loops {
		if l.parent != nil {
			l.parent.children = append(l.parent.children, l)
		}
	}
	for _, l := range fi.loops {
		for p := l.parent; p != nil; p = p.parent {
			l.depth++
		}
	}
	for _, b := range fn.Blocks {
		var best *Loop
		for _, l := range fi.loops {
			if l.blocks[b] && (best == nil || len(l.blocks) < len(best.blocks)) {
				best = l
			}
		}
		fi.innermost[b.Index] = best
	}
	// live-out values
	for _, l := range fi.loops {
		seen := map[ssa.Value]bool{}
		for b := range l.blocks {
			for _, ins := range b.Instrs {
				v, ok := ins.(ssa.Value)
				if !ok {
					continue
				}
				refs := v.Referrers()
				if refs == nil {
					continue
				}
				for _, r := range *refs {
					rb := r.Block()
					out := !l.blocks[rb]
					if !out {
						// a phi in the loop header reading v over an *entry* edge cannot happen (v defined inside)
						continue
					}
					if out && !seen[v] {
						seen[v] = true
						l.liveOut = append(l.liveOut, v)
					}
				}
			}
		}
	}
	// region orders
	fi.order = fi.regionOrder(nil)
	for _, l := range fi.loops {
		l.order = fi.regionOrder(l)
	}
	fi.computePostDom()
	return fi
}

func dominatesOrForward(fn *ssa.Function, b, s *ssa.BasicBlock) bool { return true }

// nodeOf maps a block to its node within region r (r==nil: whole function).
func (fi *FuncInfo) nodeOf(r *Loop, b *ssa.BasicBlock) (regionNode, bool) {
	l := fi.innermost[b.Index]
	if r != nil && !r.blocks[b] {
		return regionNode{}, false
	}
	// climb until the loop's parent is r
	if l == r {
		return regionNode{b: b}, true
	}
	for l != nil && l.parent != r {
		l = l.parent
	}
	if l == nil {
		return regionNode{}, false
	}
	return regionNode{l: l}, true
}

func (fi *FuncInfo) regionOrder(r *Loop) []regionNode {
	var entry *ssa.BasicBlock
	if r == nil {
		if len(fi.fn.Blocks) == 0 {
			return nil
		}
		entry = fi.fn.Blocks[0]
	} else {
		entry = r.header
	}
	visited := map[regionNode]bool{}
	var post []regionNode
	var dfs func(nd regionNode)
	succsOf := func(nd regionNode) []regionNode {
		var out []regionNode
		add := func(from *ssa.BasicBlock) {
			for _, s := range from.Succs {
				if r != nil && s == r.header {
					continue // back edge of this region
				}
				sn, ok := fi.nodeOf(r, s)
				if !ok || sn == nd {
					continue
				}
				out = append(out, sn)
			}
		}
		if nd.b != nil {
			add(nd.b)
		} else {
			// deterministic order: by block index
			for _, b := range fi.fn.Blocks {
				if nd.l.blocks[b] {
					add(b)
				}
			}
		}
		return out
	}
	dfs = func(nd regionNode) {
		visited[nd] = true
		ss := succsOf(nd)
		// visit successors in reverse so that the first successor comes first in RPO
		for i := len(ss) - 1; i >= 0; i-- {
			if !visited[ss[i]] {
				dfs(ss[i])
			}
		}
		post = append(post, nd)
	}
	en, _ := fi.nodeOf(r, entry)
	dfs(en)
	for i, j := 0, len(post)-1; i < j; i, j = i+1, j-1 {
		post[i], post[j] = post[j], post[i]
	}
	return post
}

// computePostDom computes, per region (whole function or loop body), post-dominance on the
// per-iteration DAG: edges leaving the region and back edges to the region header go to a virtual
// exit, back edges of nested loops are kept (all exiting paths count). restore[b] = nearest dominator d of b in the same
// innermost loop such that b post-dominates d within one iteration (guard(b) == guard(d)).
func (fi *FuncInfo) computePostDom() {
	n := len(fi.fn.Blocks)
	fi.restore = make([]int, n)
	for i := range fi.restore {
		fi.restore[i] = -1
	}
	fi.postDomRegion(nil)
	for _, l := range fi.loops {
		fi.postDomRegion(l)
	}
}

func (fi *FuncInfo) postDomRegion(r *Loop) {
	fn := fi.fn
	n := len(fn.Blocks)
	exit := n
	in := func(b *ssa.BasicBlock) bool { return r == nil || r.blocks[b] }
	rsucc := make([][]int, n+1)
	rpred := make([][]int, n+1)
	addEdge := func(from, to int) {
		rsucc[to] = append(rsucc[to], from)
		rpred[from] = append(rpred[from], to)
	}
	for _, b := range fn.Blocks {
		if !in(b) {
			continue
		}
		if len(b.Succs) == 0 {
			addEdge(b.Index, exit)
		}
		for _, s := range b.Succs {
			switch {
			case !in(s):
				addEdge(b.Index, exit)
			case r != nil && s == r.header:
				addEdge(b.Index, exit)
			default:
				// includes back edges of nested loops: post-dominance over all exiting paths
				addEdge(b.Index, s.Index)
			}
		}
	}
	visited := make([]bool, n+1)
	var post []int
	var dfs func(int)
	dfs = func(x int) {
		visited[x] = true
		for _, y := range rsucc[x] {
			if !visited[y] {
				dfs(y)
			}
		}
		post = append(post, x)
	}
	dfs(exit)
	rpoNum := make([]int, n+1)
	for i := range rpoNum {
		rpoNum[i] = -1
	}
	for i, x := range post {
		rpoNum[x] = len(post) - 1 - i
	}
	idom := make([]int, n+1)
	for i := range idom {
		idom[i] = -1
	}
	idom[exit] = exit
	intersect := func(a, b int) int {
		for a != b {
			for rpoNum[a] > rpoNum[b] {
				a = idom[a]
			}
			for rpoNum[b] > rpoNum[a] {
				b = idom[b]
			}
		}
		return a
	}
	changed := true
	for changed {
		changed = false
		for i := len(post) - 1; i >= 0; i-- {
			x := post[i]
			if x == exit {
				continue
			}
			newIdom := -1
			for _, p := range rpred[x] {
				if rpoNum[p] < 0 || idom[p] < 0 {
					continue
				}
				if newIdom < 0 {
					newIdom = p
				} else {
					newIdom = intersect(p, newIdom)
				}
			}
			if newIdom >= 0 && idom[x] != newIdom {
				idom[x] = newIdom
				changed = true
			}
		}
	}
	postDominates := func(a, b int) bool { // a post-dominates b
		if rpoNum[b] < 0 || rpoNum[a] < 0 {
			return false
		}
		x := b
		for {
			if x == a {
				return true
			}
			if x == exit || idom[x] < 0 || idom[x] == x {
				return false
			}
			x = idom[x]
		}
	}
	// dead ends (blocks that cannot reach the exit in this DAG) make post-dominance vacuous:
	// require every block of the region to reach the exit, else no restoration in this region.
	for _, b := range fn.Blocks {
		if in(b) && rpoNum[b.Index] < 0 {
			return
		}
	}
	for _, b := range fn.Blocks {
		if fi.innermost[b.Index] != r {
			continue
		}
		if r != nil && r.header == b {
			continue
		}
		for d := b.Idom(); d != nil; d = d.Idom() {
			if !in(d) {
				break
			}
			if fi.innermost[d.Index] == r && postDominates(b.Index, d.Index) {
				fi.restore[b.Index] = d.Index
				break
			}
		}
	}
}
