#!/bin/bash
# usage: seedtest3.sh <seeded dir name> <check ids...>
# applies /verif/seeded/<name>/patch.diff to /repo (never committed), runs the quick checks, undoes it
name=$1; shift
SR=${SEEDREPO:-/tmp/seedrepo}; cd $SR || exit 1
git reset -q --hard
git checkout -q --detach $(git -C /repo rev-parse HEAD)
git apply /verif/seeded/$name/patch.diff 2>/dev/null || git apply -3 /verif/seeded/$name/patch.diff 2>/dev/null || { echo "RESULT $name PATCH-DOES-NOT-APPLY"; git reset -q --hard; exit 0; }
git reset -q
for c in "$@"; do
  out=$(cd /verif && VERIF_REPO=$SR VERIF_STOP_ON_VIOLATION=1 VERIF_EVIDENCE_SKIP=1 timeout 3000 ./check $c --tier quick 2>&1 | grep -v "^KNOWN-FINDING\|^  ")
  v=$(echo "$out" | grep -c "^VIOLATION")
  echo "RESULT $name check=$c violations_lines=$v $(echo "$out" | tail -1 | cut -c1-200)"
done
git reset -q --hard
git status --short | head -3
