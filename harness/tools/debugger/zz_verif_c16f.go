package debugger

//verif:mode fork
//verif:panics violation

import (
	"github.com/pancsta/asyncmachine-go/pkg/telemetry/dbg"
	"github.com/pancsta/asyncmachine-go/tools/debugger/server"
	"github.com/pancsta/asyncmachine-go/tools/debugger/types"
)

func init() {
	verifRegister("VerifC16Filter", VerifC16Filter)
}

// VerifC16Filter: hFilterTx never shows a transition that one of the active filters excludes
// (basic transition filters; group and healthcheck filters need schema data and stay outside).
func VerifC16Filter() {
	l := vInt(1, 3)
	c := &Client{Client: &server.Client{Exportable: &server.Exportable{MsgStruct: &dbg.DbgMsgStruct{StatesIndex: []string{"A", "B"}}}}}
	for i := 0; i < l; i++ {
		tx := &dbg.DbgMsgTx{IsAuto: vBool(), Accepted: vBool(), IsQueued: vBool(), IsCheck: vBool(),
			QueueTick: uint64(vInt(0, 3)), MutQueueTick: uint64(vInt(0, 3)), CalledStatesIdxs: []int{0}}
		c.MsgTxs = append(c.MsgTxs, tx)
		c.MsgTxsParsed = append(c.MsgTxsParsed, &types.MsgTxParsed{TimeDiff: uint64(vInt(0, 1))})
	}
	f := &types.Filters{SkipCanceledTx: vBool(), SkipAutoTx: vBool(), SkipAutoCanceledTx: vBool(), SkipEmptyTx: vBool(),
		SkipQueuedTx: vBool(), SkipChecks: vBool()}
	idx := vInt(0, 2)
	vAssume(idx < l)
	var d *Debugger
	shown := d.hFilterTx(c, idx, f)
	vReach("filter")
	tx := c.MsgTxs[idx]
	if !shown {
		return
	}
	vAssert("filter-auto", !(f.SkipAutoTx && tx.IsAuto))
	vAssert("filter-auto-canceled", !(f.SkipAutoCanceledTx && tx.IsAuto && !tx.Accepted))
	vAssert("filter-canceled", !(f.SkipCanceledTx && !tx.Accepted))
	vAssert("filter-queued", !(f.SkipQueuedTx && tx.IsQueued))
	vAssert("filter-checks", !(f.SkipChecks && tx.IsCheck))
	vAssert("filter-empty", !(f.SkipEmptyTx && c.MsgTxsParsed[idx].TimeDiff == 0 && !tx.IsQueued && tx.Accepted))
	if f.SkipAutoCanceledTx && tx.IsAuto && tx.IsQueued {
		// a queued auto mutation whose execution (a later record with its queue tick) was canceled
		for j := idx + 1; j < l; j++ {
			o := c.MsgTxs[j]
			if o.IsQueued {
				continue
			}
			if o.QueueTick == tx.MutQueueTick {
				vAssert("filter-auto-canceled-later", o.Accepted)
				break
			}
		}
	}
}
