package server

//verif:mode fork
//verif:panics violation

import (
	"github.com/pancsta/asyncmachine-go/pkg/telemetry/dbg"
	"github.com/pancsta/asyncmachine-go/tools/debugger/types"
)

func init() {
	verifRegister("VerifC16QueueTick", VerifC16QueueTick)
	verifRegister("VerifC16MachTime", VerifC16MachTime)
	verifRegister("VerifC16Errors", VerifC16Errors)
	verifRegister("VerifC16Index", VerifC16Index)
}

// VerifC16QueueTick: TxAtQueueTick returns what a linear scan returns on any stream with
// non-decreasing queue ticks.
func VerifC16QueueTick() {
	l := vInt(0, 4)
	c := &Client{Exportable: &Exportable{}}
	var prev uint64
	for i := 0; i < l; i++ {
		q := prev + uint64(vU32())
		c.MsgTxs = append(c.MsgTxs, &dbg.DbgMsgTx{QueueTick: q})
		prev = q
	}
	q := vU64()
	got := c.TxAtQueueTick(q)
	vReach("queuetick")
	want := -1
	if l > 0 {
		want = l - 1
		for i := 0; i < l; i++ {
			if c.MsgTxs[i].QueueTick >= q {
				want = i
				break
			}
		}
	}
	vAssert("tx-at-queue-tick-is-linear-scan", got == want)
	// index getters
	idx := vInt(-1, 6)
	tx := c.Tx(idx)
	vAssert("tx-bounds", (tx != nil) == (idx >= 0 && idx < l))
}

// VerifC16MachTime: TxAtMachTime on non-decreasing time sums.
func VerifC16MachTime() {
	l := vInt(0, 5)
	c := &Client{Exportable: &Exportable{}}
	var prev uint64
	for i := 0; i < l; i++ {
		s := prev + uint64(vU16())
		c.MsgTxsParsed = append(c.MsgTxsParsed, &types.MsgTxParsed{TimeSum: s})
		prev = s
	}
	sum := vU64()
	got := c.TxAtMachTime(sum)
	vReach("machtime")
	want := 0
	found := false
	first := -1
	for i := 0; i < l; i++ {
		if c.MsgTxsParsed[i].TimeSum == sum {
			found = true
			if first < 0 {
				first = i
			}
		}
	}
	if found {
		vAssert("tx-at-mach-time-finds-a-match", got >= 0 && got < l && c.MsgTxsParsed[got].TimeSum == sum)
		// "the transition a linear scan would": the first of a run of transitions with the same sum (queued /
		// canceled / check transitions do not move the machine time)
		vAssert("tx-at-mach-time-is-the-linear-scan-result", got == first)
	} else {
		vAssert("tx-at-mach-time-default", got == want)
	}
	idx := vInt(-1, 6)
	vAssert("txparsed-bounds", (c.TxParsed(idx) != nil) == (idx >= 0 && idx < l))
}

// VerifC16Errors: HadErrSinceTx over a descending error index list.
func VerifC16Errors() {
	l := vInt(0, 3)
	c := &Client{Exportable: &Exportable{}}
	// strictly descending transition indexes
	cur := 40
	for i := 0; i < l; i++ {
		cur = cur - 1 - vInt(0, 6)
		c.Errors = append(c.Errors, cur)
	}
	tx := vInt(0, 45)
	dist := vInt(1, 12)
	got := c.HadErrSinceTx(tx, dist)
	vReach("errors")
	want := false
	for _, e := range c.Errors {
		if e == tx || (e < tx && tx-e < dist) {
			want = true
		}
	}
	vAssert("had-err-since-is-linear-scan", got == want)
}

// VerifC16Index: TxIndex (with its cache) and FilterIndexByCursor1.
func VerifC16Index() {
	ids := []string{"t1", "t2", "t3"}
	l := vInt(0, 3)
	c := &Client{Exportable: &Exportable{}}
	for i := 0; i < l; i++ {
		c.MsgTxs = append(c.MsgTxs, &dbg.DbgMsgTx{ID: ids[vInt(0, 2)]})
	}
	id := ids[vInt(0, 2)]
	got := c.TxIndex(id)
	again := c.TxIndex(id)
	vReach("index")
	want := -1
	for i := 0; i < l; i++ {
		if c.MsgTxs[i].ID == id {
			want = i
			break
		}
	}
	vAssert("tx-index-is-first-match", got == want)
	vAssert("tx-index-cache-agrees", again == got)
	// the stream grows: a transition that arrives after an early (missing) lookup must be found
	if want == -1 {
		c.MsgTxs = append(c.MsgTxs, &dbg.DbgMsgTx{ID: id})
		vAssert("tx-index-after-late-arrival", c.TxIndex(id) == l)
	}
	// filter index
	nf := vInt(0, 3)
	for i := 0; i < nf; i++ {
		c.MsgTxsFiltered = append(c.MsgTxsFiltered, i*2)
	}
	cur := vInt(0, 7)
	fi := c.FilterIndexByCursor1(cur)
	wantF := -1
	if cur == 0 {
		wantF = 0
	} else {
		for i, v := range c.MsgTxsFiltered {
			if v == cur-1 {
				wantF = i
				break
			}
		}
	}
	vAssert("filter-index-by-cursor", fi == wantF)
}
