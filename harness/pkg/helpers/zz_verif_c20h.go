package helpers

//verif:mode fork
//verif:panics violation
//verif:go * drop
//verif:notimers

import (
	am "github.com/pancsta/asyncmachine-go/pkg/machine"
)

func init() {
	verifRegister("VerifC20Ask", VerifC20Ask)
}

func verifAskMach(aActive, bActive bool) *am.Machine {
	m := am.New(nil, am.Schema{"A": {}, "B": {Require: am.S{"A"}}, "C": {Remove: am.S{"A"}}}, &am.Opts{Id: "vm"})
	if aActive {
		m.Add1("A", nil)
	}
	if bActive {
		m.Add1("B", nil)
	}
	return m
}

// VerifC20Ask: the ask / cant helpers answer according to what a plain mutation does on an identical machine
// (no handlers: the outcome is decided by relations only).
func VerifC20Ask() {
	aActive, bActive := vBool(), vBool()
	st := am.S{"A", "B", "C"}[vInt(0, 2)]
	m1 := verifAskMach(aActive, bActive)
	m2 := verifAskMach(aActive, bActive)
	vReach("ask")
	switch vParam("ask", 0) {
	case 0:
		want := m2.Remove1(st, nil)
		vAssert("cant-remove-iff-remove-canceled", CantRemove(m1, am.S{st}, nil) == (want == am.Canceled))
	case 1:
		want := m2.Add1(st, nil)
		vAssert("cant-add-iff-add-canceled", CantAdd(m1, am.S{st}, nil) == (want == am.Canceled))
	case 2:
		want := m2.Remove1(st, nil)
		got := AskRemove(m1, am.S{st}, nil)
		vAssert("ask-remove-like-remove", got == want && m1.Is1(st) == m2.Is1(st))
	case 3:
		want := m2.Add1(st, nil)
		got := AskAdd(m1, am.S{st}, nil)
		vAssert("ask-add-like-add", got == want && m1.Is1(st) == m2.Is1(st))
	case 4:
		want := m2.Remove1(st, nil)
		vAssert("cant-remove1-iff-remove-canceled", CantRemove1(m1, st, nil) == (want == am.Canceled))
	case 5:
		want := m2.Add1(st, nil)
		vAssert("cant-add1-iff-add-canceled", CantAdd1(m1, st, nil) == (want == am.Canceled))
	}
}
