package node

//verif:mode fork
//verif:panics violation
//verif:go * drop
//verif:override (*github.com/pancsta/asyncmachine-go/pkg/node.Supervisor).readyWorkers verifReadyWorkers

import (
	am "github.com/pancsta/asyncmachine-go/pkg/machine"
	"github.com/pancsta/asyncmachine-go/pkg/node/states"
)

func init() {
	verifRegister("VerifC15Gates", VerifC15Gates)
}

// verifSupMach is what a gate can ask its event about: the state names and the running transition.
type verifSupMach struct {
	am.Api
	names am.S
	tx    *am.Transition
}

func (m *verifSupMach) StateNames() am.S           { return m.names }
func (m *verifSupMach) Transition() *am.Transition { return m.tx }
func (m *verifSupMach) Id() string                 { return "sup" }

// verifGateEvent builds the event of a negotiation handler <state><suffix> of a transition that called [called].
func verifGateEvent(name string, typ am.MutationType, called []int) *am.Event {
	names := am.S{"Start", "PoolReady", "ForkWorker", "WorkerGone", "PoolStarting"}
	mach := &verifSupMach{names: names}
	mach.tx = &am.Transition{MachApi: mach, Mutation: &am.Mutation{Type: typ, Called: called}}
	e := am.NewEvent(nil, mach)
	e.Name = name
	e.MachineId = "sup"
	return e
}

// verifReadyWorkers replaces Supervisor.readyWorkers (which asks each worker's RPC mirror): the first
// `PoolPause` (abused as a counter by the harness, never read by the gates) tracked workers are ready.
func verifReadyWorkers(s *Supervisor) []*workerInfo {
	n := int(s.PoolPause)
	var ret []*workerInfo
	for i := 0; i < n; i++ {
		ret = append(ret, &workerInfo{})
	}
	return ret
}

// VerifC15Gates: the negotiation gates of the supervisor for every pool setting 0..6 and every number of
// tracked / ready workers 0..7: ForkWorker is refused at Max, PoolReady is granted exactly when at least
// min(Min, Max) workers are ready and withdrawn exactly when fewer are.
func VerifC15Gates() {
	max := vInt(0, 6)
	min := vInt(0, 6)
	tracked := vInt(0, 7)
	ready := vInt(0, 7)
	vAssume(ready <= tracked)
	s := &Supervisor{Max: max, Min: min, workers: map[string]*workerInfo{}}
	for i := 0; i < tracked; i++ {
		s.workers[string(rune('a'+i))] = &workerInfo{}
	}
	s.PoolPause = 0
	for i := 0; i < ready; i++ {
		s.PoolPause++
	}
	// the package-level state names are built by reflection in init(), which the engine does not run
	if vSymbolic() {
		ssS = states.SupervisorStatesDef{PoolReady: "PoolReady", ForkWorker: "ForkWorker", WorkerGone: "WorkerGone",
			PoolStarting: "PoolStarting"}
	}
	// PoolReady is withdrawn by an explicit Remove1(PoolReady) or through a relation (Add WorkerGone / PoolStarting)
	exitEv := verifGateEvent("PoolReadyExit", am.MutationRemove, []int{1})
	if vBool() {
		exitEv = verifGateEvent("PoolReadyExit", am.MutationAdd, []int{3 + vInt(0, 1)})
	}
	vReach("gates")
	vAssert("fork-refused-at-max", s.ForkWorkerEnter(verifGateEvent("ForkWorkerEnter", am.MutationAdd, []int{2})) == (tracked < max))
	need := min
	if max < need {
		need = max
	}
	vAssert("min-capped-by-max", s.min() == need)
	vAssert("pool-ready-granted-iff-enough-ready", s.PoolReadyEnter(verifGateEvent("PoolReadyEnter", am.MutationAdd, []int{1})) == (ready >= need))
	vAssert("pool-ready-withdrawn-iff-too-few", s.PoolReadyExit(exitEv) == (ready < need))
}
