package node

//verif:mode fork
//verif:panics violation
//verif:go * drop
//verif:override (*github.com/pancsta/asyncmachine-go/pkg/node.Supervisor).readyWorkers verifReadyWorkers

func init() {
	verifRegister("VerifC15Gates", VerifC15Gates)
}

// verifReadyWorkers replaces Supervisor.readyWorkers (which asks each worker's RPC mirror): the first
// `PoolPause` (abused as a counter by the harness, never read by the gates) tracked workers are ready.
func verifReadyWorkers(s *Supervisor) []*workerInfo {
	n := int(s.PoolPause)
	var ret []*workerInfo
	for i := 0; i < n; i++ {
		ret = append(ret, &workerInfo{})
	}
	return ret
}

// VerifC15Gates: the negotiation gates of the supervisor for every pool setting 0..6 and every number of
// tracked / ready workers 0..7: ForkWorker is refused at Max, PoolReady is granted exactly when at least
// min(Min, Max) workers are ready and withdrawn exactly when fewer are.
func VerifC15Gates() {
	max := vInt(0, 6)
	min := vInt(0, 6)
	tracked := vInt(0, 7)
	ready := vInt(0, 7)
	vAssume(ready <= tracked)
	s := &Supervisor{Max: max, Min: min, workers: map[string]*workerInfo{}}
	for i := 0; i < tracked; i++ {
		s.workers[string(rune('a'+i))] = &workerInfo{}
	}
	s.PoolPause = 0
	for i := 0; i < ready; i++ {
		s.PoolPause++
	}
	vReach("gates")
	vAssert("fork-refused-at-max", s.ForkWorkerEnter(nil) == (tracked < max))
	need := min
	if max < need {
		need = max
	}
	vAssert("min-capped-by-max", s.min() == need)
	vAssert("pool-ready-granted-iff-enough-ready", s.PoolReadyEnter(nil) == (ready >= need))
	vAssert("pool-ready-withdrawn-iff-too-few", s.PoolReadyExit(nil) == (ready < need))
}
