package pipes

import (
	am "github.com/pancsta/asyncmachine-go/pkg/machine"
)

func init() {
	verifRegister("VerifC18Any", VerifC18Any)
}

// verifSetMach: a machine reduced to an active set, as BindAny sees its source and target.
type verifSetMach struct {
	am.Api
	id      string
	names   am.S
	active  am.S
	tx      *am.Transition
	anyFn   am.HandlerFinal
	setCall int
}

func (m *verifSetMach) SemLogger() am.SemLogger        { return verifSem{} }
func (m *verifSetMach) Id() string                     { return m.id }
func (m *verifSetMach) OnDispose(fn am.HandlerDispose) {}
func (m *verifSetMach) StateNames() am.S               { return m.names }
func (m *verifSetMach) Transition() *am.Transition     { return m.tx }
func (m *verifSetMach) ActiveStates(states am.S) am.S  { return append(am.S{}, m.active...) }
func (m *verifSetMach) Is(states am.S) bool {
	for _, s := range states {
		found := false
		for _, a := range m.active {
			if a == s {
				found = true
			}
		}
		if !found {
			return false
		}
	}
	return true
}
func (m *verifSetMach) Set(states am.S, args am.A) am.Result {
	m.active = append(am.S{}, states...)
	m.setCall++
	return am.Executed
}
func (m *verifSetMach) HandlersBind(handlers any, opts ...am.BindOpts) (string, error) {
	if h, ok := handlers.(*struct{ AnyState am.HandlerFinal }); ok {
		m.anyFn = h.AnyState
	}
	return "bind", nil
}

// VerifC18Any: BindAny mirrors the whole machine: after every source transition (the AnyState handler runs
// with the transition's target states) the target's active set equals the source's.
func VerifC18Any() {
	names := am.S{"A", "B", "C"}
	src := &verifSetMach{id: "src", names: names}
	tgt := &verifSetMach{id: "tgt", names: names}
	_, err := BindAny(src, tgt)
	vAssume(err == nil && src.anyFn != nil)
	k := vParam("steps", 3)
	for j := 0; j < k; j++ {
		var idxs []int
		var set am.S
		for i, n := range names {
			if vBool() {
				idxs = append(idxs, i)
				set = append(set, n)
			}
		}
		src.active = set
		src.tx = &am.Transition{MachApi: src, TargetIndexes: idxs}
		e := am.NewEvent(nil, src)
		e.Name = "AnyState"
		src.anyFn(e)
		vReach("any")
		same := len(tgt.active) == len(src.active)
		for _, s := range src.active {
			if !tgt.Is(am.S{s}) {
				same = false
			}
		}
		vAssert("target-set-equals-source-set", same)
	}
}
