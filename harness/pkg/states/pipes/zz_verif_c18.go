package pipes

//verif:mode fork
//verif:panics violation
//verif:go * task

import (
	"context"
	"sync"
	"time"

	am "github.com/pancsta/asyncmachine-go/pkg/machine"
)

func init() {
	verifRegister("VerifC18Follow", VerifC18Follow)
}

type verifSem struct{ am.SemLogger }

func (verifSem) AddPipeOut(addMut bool, sourceState string, targetMach string) {}
func (verifSem) AddPipeIn(addMut bool, targetState string, sourceMach string)  {}

// verifMach is the piped machine as seen by the pipe closures: the state queries and the mutation
// entry points of am.Api over three states (Foo, ErrFoo, Exception); everything else stays unimplemented.
type verifMach struct {
	am.Api
	id    string
	local bool
	mx    sync.Mutex
	// activity of Foo / ErrFoo / Exception
	foo, errFoo, exc bool
	// the state the pipe under test drives
	tname string
	// native only: forked deliveries wait for their gate
	gates map[string]chan struct{}
	done  map[string]chan struct{}
	rel   map[string]bool
	log   []string
}

func (m *verifMach) get(name string) bool {
	switch name {
	case "Foo":
		return m.foo
	case "ErrFoo":
		return m.errFoo
	case am.StateException:
		return m.exc
	}
	return false
}

func (m *verifMach) set(name string, v bool) {
	switch name {
	case "Foo":
		m.foo = v
	case "ErrFoo":
		m.errFoo = v
	case am.StateException:
		m.exc = v
	}
}

func (m *verifMach) all(states am.S) bool {
	m.mx.Lock()
	defer m.mx.Unlock()
	for _, s := range states {
		if !m.get(s) {
			return false
		}
	}
	return true
}

func (m *verifMach) some(states am.S) bool {
	m.mx.Lock()
	defer m.mx.Unlock()
	for _, s := range states {
		if m.get(s) {
			return true
		}
	}
	return false
}

func (m *verifMach) SemLogger() am.SemLogger        { return verifSem{} }
func (m *verifMach) Id() string                     { return m.id }
func (m *verifMach) OnDispose(fn am.HandlerDispose) {}
func (m *verifMach) IsLocal() bool                  { return m.local }
func (m *verifMach) Is(states am.S) bool            { return m.all(states) }
func (m *verifMach) Is1(state string) bool          { return m.all(am.S{state}) }
func (m *verifMach) Any1(states ...string) bool     { return m.some(states) }
func (m *verifMach) Not(states am.S) bool           { return !m.some(states) }
func (m *verifMach) Not1(state string) bool         { return !m.some(am.S{state}) }
func (m *verifMach) IsErr() bool                    { return m.some(am.S{am.StateException}) }
func (m *verifMach) Has(states am.S) bool {
	for _, s := range states {
		if s != "Foo" && s != "ErrFoo" && s != am.StateException {
			return false
		}
	}
	return true
}
func (m *verifMach) Has1(state string) bool { return m.Has(am.S{state}) }
func (m *verifMach) EvAdd(e *am.Event, states am.S, args am.A) am.Result {
	m.deliver(e, true, states)
	return am.Executed
}
func (m *verifMach) EvAdd1(e *am.Event, state string, args am.A) am.Result {
	return m.EvAdd(e, am.S{state}, args)
}
func (m *verifMach) Add(states am.S, args am.A) am.Result    { return m.EvAdd(nil, states, args) }
func (m *verifMach) Add1(state string, args am.A) am.Result  { return m.EvAdd(nil, am.S{state}, args) }
func (m *verifMach) EvRemove(e *am.Event, states am.S, args am.A) am.Result {
	m.deliver(e, false, states)
	return am.Executed
}
func (m *verifMach) EvRemove1(e *am.Event, state string, args am.A) am.Result {
	return m.EvRemove(e, am.S{state}, args)
}
func (m *verifMach) Remove(states am.S, args am.A) am.Result   { return m.EvRemove(nil, states, args) }
func (m *verifMach) Remove1(state string, args am.A) am.Result { return m.EvRemove(nil, am.S{state}, args) }

func (m *verifMach) apply(add bool, states am.S) {
	m.mx.Lock()
	for _, s := range states {
		m.set(s, add)
	}
	m.mx.Unlock()
}

func (m *verifMach) deliver(e *am.Event, add bool, states am.S) {
	if e == nil || !vInTask() || vSymbolic() {
		// synchronous call from the handler, or (engine) the forked call being run now
		m.apply(add, states)
		return
	}
	// native forked goroutine: wait until the harness opens this delivery's gate
	m.mx.Lock()
	g := m.gates[e.TransitionId]
	d := m.done[e.TransitionId]
	m.mx.Unlock()
	<-g
	m.apply(add, states)
	close(d)
}

// release lets the forked delivery of toggle j happen now.
func (m *verifMach) release(j int) {
	if vSymbolic() {
		vRunTask(j)
		return
	}
	id := verifTxId(j)
	m.mx.Lock()
	g, d := m.gates[id], m.done[id]
	already := m.rel[id]
	m.rel[id] = true
	m.mx.Unlock()
	if already || g == nil {
		return
	}
	close(g)
	select {
	case <-d:
	case <-time.After(2 * time.Second):
	}
}

// verifPick returns a concrete index 0..n-1 chosen symbolically (one path per value).
func verifPick(n int) int {
	v := vInt(0, n-1)
	for i := 0; i < n-1; i++ {
		if v == i {
			return i
		}
	}
	return n - 1
}

func verifTxId(j int) string { return string(rune('a' + j)) }

//verif:maxpaths 120000
// VerifC18Follow: a state piped with Add on activation / Remove on deactivation: after the source
// stops toggling and every forked delivery has run (in any order), the target follows the source.
func VerifC18Follow() {
	flat := vParam("flat", 1) == 1
	local := vParam("local", 1) == 1
	k := vParam("toggles", 3)
	// err=1: the piped target state is an Err-prefixed one (the Add pipe then also adds Exception), and the
	// target may already be in Exception for an unrelated reason
	tname := "Foo"
	if vParam("err", 0) == 1 {
		tname = "ErrFoo"
	}
	names := am.S{tname}
	src := &verifMach{id: "src", local: true, tname: "Foo"}
	tgt := &verifMach{id: "tgt", local: local, tname: tname, gates: map[string]chan struct{}{}, done: map[string]chan struct{}{}, rel: map[string]bool{}}
	tgt.set(tname, vBool()) // the target may start out of sync
	if tname == "ErrFoo" {
		names = am.S{am.StateException, tname}
		tgt.exc = vBool()
		vAssume(tgt.exc || !tgt.errFoo) // an active Err state implies Exception (schema Require)
	}
	onAdd := add(flat, src, tgt, "Foo", tname)
	onRemove := remove(flat, src, tgt, "Foo", tname)
	srcActive := false
	forked := 0
	ctx := context.Background()
	_ = ctx
	for j := 0; j < k; j++ {
		srcActive = !srcActive
		id := verifTxId(forked)
		tgt.mx.Lock()
		tgt.gates[id] = make(chan struct{})
		tgt.done[id] = make(chan struct{})
		tgt.mx.Unlock()
		e := &am.Event{Name: "FooState", TransitionId: id, MachineId: "src"}
		before := vPendingTasks()
		if srcActive {
			onAdd(e)
		} else {
			e.Name = "FooEnd"
			onRemove(e)
		}
		// did this toggle fork a delivery? engine: a new pending task; native: known from the variant
		didFork := false
		if vSymbolic() {
			didFork = vPendingTasks() > before
		} else {
			skipped := flat && ((srcActive && tgt.Is(names)) || (!srcActive && tgt.Not1(tname)))
			didFork = !(flat && local) && !skipped
			if flat && !local {
				// the skip test races with earlier forked deliveries; natively nothing was applied yet
				didFork = !skipped
			}
		}
		if didFork {
			forked++
		}
		// some earlier forked delivery may run before the next toggle
		if forked > 0 && vBool() {
			tgt.release(verifPick(forked))
		}
	}
	// quiescence: the remaining deliveries run in some order
	for n := 0; n < forked; n++ {
		tgt.release(verifPick(forked))
	}
	for j2 := 0; j2 < forked; j2++ {
		tgt.release(j2)
	}
	vReach("follow")
	vKnown("c18-forked-deliveries-reorder", !(flat && local))
	vAssert("target-follows-source", tgt.Is1(tname) == srcActive)
}
