package pipes

//verif:mode fork
//verif:panics violation
//verif:go * task

import (
	"context"
	"sync"
	"time"

	am "github.com/pancsta/asyncmachine-go/pkg/machine"
)

func init() {
	verifRegister("VerifC18Follow", VerifC18Follow)
}

type verifSem struct{ am.SemLogger }

func (verifSem) AddPipeOut(addMut bool, sourceState string, targetMach string) {}
func (verifSem) AddPipeIn(addMut bool, targetState string, sourceMach string)  {}

// verifMach is the piped machine as seen by the pipe closures: only what they call is implemented.
type verifMach struct {
	am.Api
	id     string
	local  bool
	mx     sync.Mutex
	active bool
	// native only: forked deliveries wait for their gate
	gates map[string]chan struct{}
	done  map[string]chan struct{}
	rel   map[string]bool
	log   []string
}

func (m *verifMach) SemLogger() am.SemLogger         { return verifSem{} }
func (m *verifMach) Id() string                      { return m.id }
func (m *verifMach) OnDispose(fn am.HandlerDispose)  {}
func (m *verifMach) IsLocal() bool                   { return m.local }
func (m *verifMach) Is(states am.S) bool             { m.mx.Lock(); defer m.mx.Unlock(); return m.active }
func (m *verifMach) Not1(state string) bool          { m.mx.Lock(); defer m.mx.Unlock(); return !m.active }
func (m *verifMach) EvAdd(e *am.Event, states am.S, args am.A) am.Result {
	m.deliver(e, true)
	return am.Executed
}
func (m *verifMach) EvRemove1(e *am.Event, state string, args am.A) am.Result {
	m.deliver(e, false)
	return am.Executed
}

func (m *verifMach) apply(add bool) {
	m.mx.Lock()
	m.active = add
	m.mx.Unlock()
}

func (m *verifMach) deliver(e *am.Event, add bool) {
	if !vInTask() || vSymbolic() {
		// synchronous call from the handler, or (engine) the forked call being run now
		m.apply(add)
		return
	}
	// native forked goroutine: wait until the harness opens this delivery's gate
	m.mx.Lock()
	g := m.gates[e.TransitionId]
	d := m.done[e.TransitionId]
	m.mx.Unlock()
	<-g
	m.apply(add)
	close(d)
}

// release lets the forked delivery of toggle j happen now.
func (m *verifMach) release(j int) {
	if vSymbolic() {
		vRunTask(j)
		return
	}
	id := verifTxId(j)
	m.mx.Lock()
	g, d := m.gates[id], m.done[id]
	already := m.rel[id]
	m.rel[id] = true
	m.mx.Unlock()
	if already || g == nil {
		return
	}
	close(g)
	select {
	case <-d:
	case <-time.After(2 * time.Second):
	}
}

// verifPick returns a concrete index 0..n-1 chosen symbolically (one path per value).
func verifPick(n int) int {
	v := vInt(0, n-1)
	for i := 0; i < n-1; i++ {
		if v == i {
			return i
		}
	}
	return n - 1
}

func verifTxId(j int) string { return string(rune('a' + j)) }

//verif:maxpaths 120000
// VerifC18Follow: a state piped with Add on activation / Remove on deactivation: after the source
// stops toggling and every forked delivery has run (in any order), the target follows the source.
func VerifC18Follow() {
	flat := vParam("flat", 1) == 1
	local := vParam("local", 1) == 1
	k := vParam("toggles", 3)
	src := &verifMach{id: "src", local: true}
	tgt := &verifMach{id: "tgt", local: local, gates: map[string]chan struct{}{}, done: map[string]chan struct{}{}, rel: map[string]bool{}}
	tgt.active = vBool() // the target may start out of sync
	onAdd := add(flat, src, tgt, "Foo", "Foo")
	onRemove := remove(flat, src, tgt, "Foo", "Foo")
	srcActive := false
	forked := 0
	ctx := context.Background()
	_ = ctx
	for j := 0; j < k; j++ {
		srcActive = !srcActive
		id := verifTxId(forked)
		tgt.mx.Lock()
		tgt.gates[id] = make(chan struct{})
		tgt.done[id] = make(chan struct{})
		tgt.mx.Unlock()
		e := &am.Event{Name: "FooState", TransitionId: id, MachineId: "src"}
		before := vPendingTasks()
		if srcActive {
			onAdd(e)
		} else {
			e.Name = "FooEnd"
			onRemove(e)
		}
		// did this toggle fork a delivery? engine: a new pending task; native: known from the variant
		didFork := false
		if vSymbolic() {
			didFork = vPendingTasks() > before
		} else {
			skipped := flat && ((srcActive && tgt.Is(nil)) || (!srcActive && tgt.Not1("")))
			didFork = !(flat && local) && !skipped
			if flat && !local {
				// the skip test races with earlier forked deliveries; natively nothing was applied yet
				didFork = !skipped
			}
		}
		if didFork {
			forked++
		}
		// some earlier forked delivery may run before the next toggle
		if forked > 0 && vBool() {
			tgt.release(verifPick(forked))
		}
	}
	// quiescence: the remaining deliveries run in some order
	for n := 0; n < forked; n++ {
		tgt.release(verifPick(forked))
	}
	for j2 := 0; j2 < forked; j2++ {
		tgt.release(j2)
	}
	vReach("follow")
	vKnown("c18-forked-deliveries-reorder", !(flat && local))
	vAssert("target-follows-source", tgt.Is(nil) == srcActive)
}
