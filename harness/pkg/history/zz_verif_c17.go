package history

//verif:mode fork
//verif:panics violation
//verif:go * drop

import (
	"context"

	am "github.com/pancsta/asyncmachine-go/pkg/machine"
)

func init() {
	verifRegister("VerifC17Find", VerifC17Find)
	verifRegister("VerifC17Track", VerifC17Track)
}

// verifMach is the tracked machine as seen by the in-memory history: three states, two tracked.
type verifMach struct {
	am.Api
	names am.S
	tick  uint32
}

func (m *verifMach) StateNames() am.S              { return m.names }
func (m *verifMach) Time(states am.S) am.Time      { return make(am.Time, len(m.names)) }
func (m *verifMach) MachineTick() uint32           { return m.tick }
func (m *verifMach) Index1(state string) int {
	for i, n := range m.names {
		if n == state {
			return i
		}
	}
	return -1
}
func (m *verifMach) Index(states am.S) []int {
	out := make([]int, len(states))
	for i, s := range states {
		out[i] = m.Index1(s)
	}
	return out
}

func verifMemory(maxRecords int) (*Memory, *verifMach) {
	mach := &verifMach{names: am.S{"X", "A", "B"}}
	cfg := &BaseConfig{TrackedStates: am.S{"A", "B"}, MaxRecords: maxRecords}
	m := &Memory{}
	m.BaseMemory = &BaseMemory{Ctx: context.Background(), Mach: mach, Cfg: cfg}
	m.BaseMemory.memImpl = m
	m.cacheTrackedIdxs = []int{1, 2}
	m.machRec = &MachineRecord{}
	return m, mach
}

// VerifC17Find: FindLatest returns precisely the records that satisfy the query, newest first,
// truncated at the limit.
func VerifC17Find() {
	m, _ := verifMemory(10)
	n := vInt(0, 3)
	for i := 0; i < n; i++ {
		a, b := uint64(vInt(0, 3)), uint64(vInt(0, 3))
		m.db = append(m.db, &MemoryRecord{Time: &TimeRecord{
			MTimeTracked: am.Time{a, b}, MTimeSum: a + b + uint64(vInt(0, 3)), MTimeTrackedSum: a + b, MachTick: uint32(i + 1),
			MTimeDiffSum: uint64(vInt(0, 3)), MTimeTrackedDiffSum: uint64(vInt(0, 3)), MTimeRecordDiffSum: uint64(vInt(0, 3)),
		}})
	}
	which := vParam("cond", 0)
	st := am.S{"A", "B"}[vInt(0, 1)]
	si := 0
	if st == "B" {
		si = 1
	}
	q := Query{}
	switch which {
	case 0:
		q.Active = am.S{st}
	case 1:
		q.Activated = am.S{st}
	case 2:
		q.Inactive = am.S{st}
	case 3:
		q.Deactivated = am.S{st}
	case 4:
		q.Start.MTimeSum = uint64(vInt(1, 5))
		q.End.MTimeSum = q.Start.MTimeSum + uint64(vInt(0, 4))
	case 5:
		q.Start.MachTick = uint32(vInt(1, 3))
		q.End.MachTick = q.Start.MachTick + uint32(vInt(0, 2))
	case 6:
		q.Start.MTimeTrackedSum = uint64(vInt(1, 4))
		q.End.MTimeTrackedSum = q.Start.MTimeTrackedSum + uint64(vInt(0, 3))
	case 7:
		q.Start.MTimeDiff = uint64(vInt(1, 3))
		q.End.MTimeDiff = q.Start.MTimeDiff + uint64(vInt(0, 2))
	case 8:
		q.Start.MTimeTrackedDiff = uint64(vInt(1, 3))
		q.End.MTimeTrackedDiff = q.Start.MTimeTrackedDiff + uint64(vInt(0, 2))
	case 9:
		q.Start.MTimeRecordDiff = uint64(vInt(1, 3))
		q.End.MTimeRecordDiff = q.Start.MTimeRecordDiff + uint64(vInt(0, 2))
	}
	limit := vInt(0, 2)
	vKnown("c17-findlatest-state-filters-ignored", which <= 3)
	got, err := m.FindLatest(context.Background(), false, limit, q)
	vReach("find")
	vAssert("no-error", err == nil)
	// reference: newest first
	var want []*MemoryRecord
	for i := n - 1; i >= 0; i-- {
		r := m.db[i]
		act := r.Time.MTimeTracked[si]%2 == 1
		prevAct := i > 0 && m.db[i-1].Time.MTimeTracked[si]%2 == 1
		ok := true
		switch which {
		case 0:
			ok = act
		case 1:
			ok = act && !(i > 0 && prevAct)
		case 2:
			ok = !act
		case 3:
			ok = !act && !(i > 0 && !prevAct)
		case 4:
			ok = r.Time.MTimeSum >= q.Start.MTimeSum && r.Time.MTimeSum <= q.End.MTimeSum
		case 5:
			ok = r.Time.MachTick >= q.Start.MachTick && r.Time.MachTick <= q.End.MachTick
		case 6:
			ok = r.Time.MTimeTrackedSum >= q.Start.MTimeTrackedSum && r.Time.MTimeTrackedSum <= q.End.MTimeTrackedSum
		case 7:
			ok = r.Time.MTimeDiffSum >= q.Start.MTimeDiff && r.Time.MTimeDiffSum <= q.End.MTimeDiff
		case 8:
			ok = r.Time.MTimeTrackedDiffSum >= q.Start.MTimeTrackedDiff && r.Time.MTimeTrackedDiffSum <= q.End.MTimeTrackedDiff
		case 9:
			ok = r.Time.MTimeRecordDiffSum >= q.Start.MTimeRecordDiff && r.Time.MTimeRecordDiffSum <= q.End.MTimeRecordDiff
		}
		if ok {
			want = append(want, r)
			if limit > 0 && len(want) >= limit {
				break
			}
		}
	}
	same := len(got) == len(want)
	if same {
		for i := range got {
			if got[i] != want[i] {
				same = false
			}
		}
	}
	vAssert("find-latest-is-exact", same)
}

// VerifC17Track: one record per matching transition, tracked times = machine time after,
// bounded by MaxRecords.
func VerifC17Track() {
	maxRec := vInt(1, 2)
	m, mach := verifMemory(maxRec)
	cfg := m.Cfg
	mode := vParam("mode", 0)
	switch mode {
	case 1:
		cfg.Called = am.S{"A"}
	case 2:
		cfg.Called = am.S{"A"}
		cfg.CalledExclude = true
	case 3:
		cfg.Changed = am.S{"B"}
	case 4:
		cfg.Changed = am.S{"B"}
		cfg.ChangedExclude = true
	case 5:
		// block list over a state that is not tracked
		cfg.Changed = am.S{"X"}
		cfg.ChangedExclude = true
	}
	cfg.TrackRejected = vBool()
	tr := &tracer{mem: m}
	k := vInt(1, 2)
	cur := am.Time{uint64(vInt(0, 2)), uint64(vInt(0, 2)), uint64(vInt(0, 2))}
	expect := 0
	var lastWant am.Time
	for i := 0; i < k; i++ {
		next := am.Time{cur[0] + uint64(vInt(0, 1)), cur[1] + uint64(vInt(0, 1)), cur[2] + uint64(vInt(0, 1))}
		calledA := vBool()
		accepted := vBool()
		isCheck := vBool()
		if !accepted || isCheck {
			next = am.Time{cur[0], cur[1], cur[2]}
		}
		mut := &am.Mutation{Type: am.MutationAdd, IsCheck: isCheck}
		if calledA {
			mut.Called = []int{1}
		} else {
			mut.Called = []int{2}
		}
		tx := &am.Transition{Mutation: mut, MachApi: mach, TimeBefore: cur, TimeAfter: next}
		tx.IsAccepted.Store(accepted)
		mach.tick++
		tr.TransitionEnd(tx)
		// reference match rule (unambiguous configurations only)
		changedB := next[2] != cur[2]
		changedX := next[0] != cur[0]
		match := true
		switch mode {
		case 1:
			match = calledA
		case 2:
			match = !calledA
		case 3:
			match = changedB
		case 4:
			match = !changedB
		case 5:
			match = !changedX
		}
		if isCheck || (!accepted && !cfg.TrackRejected) {
			match = false
		}
		if match {
			expect++
			lastWant = am.Time{next[1], next[2]}
		}
		cur = next
	}
	vReach("track")
	wantLen := expect
	if wantLen > maxRec {
		wantLen = maxRec
	}
	vAssert("bounded-by-max-records", len(m.db) <= maxRec)
	vAssert("one-record-per-matching-transition", len(m.db) == wantLen)
	if expect > 0 && len(m.db) > 0 {
		last := m.db[len(m.db)-1].Time.MTimeTracked
		vAssert("tracked-time-is-time-after", len(last) == 2 && last[0] == lastWant[0] && last[1] == lastWant[1])
	}
}
