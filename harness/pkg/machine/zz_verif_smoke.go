package machine

//verif:go * drop
//verif:notimers
//verif:override github.com/pancsta/asyncmachine-go/pkg/machine.randId verifRandId

func init() {
	verifRegister("VerifSmoke", VerifSmoke)
}


func VerifSmoke() {
	m := New(nil, Schema{"A": {}, "B": {Require: S{"A"}}, "C": {Auto: true, Require: S{"B"}}}, nil)
	r := m.Add1("B", nil)
	vAssert("b-canceled", r == Canceled)
	r = m.Add(S{"A", "B"}, nil)
	vAssert("ab-exec", r == Executed)
	vAssert("c-auto", m.Is1("C"))
	vLog("tickA", m.Tick("A"))
	vLog("tickC", m.Tick("C"))
	vReach("end")
}
