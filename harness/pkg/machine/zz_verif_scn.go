package machine

// Scenario helper: a machine with a (case-split or symbolic) schema, a symbolic consistent
// pre-state, map handlers for every handler name whose negotiation results come from a symbolic
// veto table, a recording tracer, and the handler goroutine served inline (rendezvous).

type verifCall struct {
	name   string
	active S    // active states seen by the handler
	time   Time // machine time seen by the handler
}

type verifTrace struct {
	kind   string // init | start | finals | end | queued | queueend
	mut    *Mutation
	before Time
	after  Time
	acc    bool
	mach   Time // machine time when the tracer was called
	ncalls int  // number of handler calls recorded so far
	active S    // the machine's active list (in its internal order) when the tracer was called
}

type verifTracer struct {
	*TracerNoOp
	m   *Machine
	scn *verifScn
	log []verifTrace
}

func (t *verifTracer) add(kind string, tx *Transition) {
	t.log = append(t.log, verifTrace{kind: kind, mut: tx.Mutation, before: tx.TimeBefore, after: tx.TimeAfter,
		acc: tx.IsAccepted.Load(), mach: t.m.time(nil), ncalls: len(t.scn.calls), active: t.m.ActiveStates(nil)})
	if t.scn.traceHook != nil {
		t.scn.traceHook(kind)
	}
}
func (t *verifTracer) TransitionInit(tx *Transition)   { t.add("init", tx) }
func (t *verifTracer) TransitionStart(tx *Transition)  { t.add("start", tx) }
func (t *verifTracer) TransitionFinals(tx *Transition) { t.add("finals", tx) }
func (t *verifTracer) TransitionEnd(tx *Transition)    { t.add("end", tx) }
func (t *verifTracer) MutationQueued(m Api, mut *Mutation) {
	t.log = append(t.log, verifTrace{kind: "queued", mut: mut})
}
func (t *verifTracer) QueueEnd(m Api) { t.log = append(t.log, verifTrace{kind: "queueend"}) }

type verifScn struct {
	m      *Machine
	n      int
	names  S
	schema Schema // parsed schema of the machine
	raw    Schema
	pre    S
	preT   Time
	veto   map[string]bool
	calls  []verifCall
	tr     *verifTracer
	// nested mutation issued from a handler (C04)
	nestIn  string
	nestFn  func()
	nestRes Result
	// fault injection (C08): returns true when the handler call must fault
	faultHook func(name string) bool
	faultNow  bool
	// handler goroutine bookkeeping (C08): every `go m.handlerLoop()` is a pending task that is never run (the
	// loop is served inline); a delivered fault kills one loop. A handler call while no loop is alive blocks the
	// real machine forever on handlerStart.
	loopsDied int
	wedged    bool
	// traceHook is called from every transition tracer hook (init, start, finals, end)
	traceHook func(kind string)
	// eventHook is called with the event of every handler call
	eventHook func(name string, e *Event)
}

func verifHandlerNames(names S) (neg []string, fin []string) {
	for _, s := range names {
		neg = append(neg, s+"Exit", s+"Enter", s+s)
		for _, t := range names {
			if t != s {
				neg = append(neg, s+t)
			}
		}
		fin = append(fin, s+"State", s+"End")
	}
	neg = append(neg, "AnyEnter")
	fin = append(fin, "AnyState")
	return
}

// verifNewScn builds the machine. handlers: bind handlers (and serve them inline); tracer: bind
// the recording tracer; vetoOK: handler results are symbolic (otherwise all true).
func verifNewScn(n int, withAuto, withMulti, withAfter, handlers, tracer, vetoOK bool) *verifScn {
	s := &verifScn{n: n, names: verifNames(n)}
	s.raw = verifSchemaBits(newVerifBits(), n, withAuto, withMulti, withAfter)
	_, err := s.raw.Parse()
	vAssume(err == nil)
	opts := &Opts{}
	if tracer {
		s.tr = &verifTracer{}
		opts.Tracers = []Tracer{s.tr}
	}
	s.m = New(nil, s.raw, opts)
	if tracer {
		s.tr.m = s.m
		s.tr.scn = s
	}
	s.schema = s.m.schema
	if handlers {
		s.bindAll(vetoOK, false)
	}
	return s
}

// bindAll binds one map binding with every handler name and serves the handler goroutine inline.
func (s *verifScn) bindAll(vetoOK, withException bool) {
	s.veto = map[string]bool{}
	hn := append(S{}, s.names...)
	if withException {
		hn = append(hn, StateException)
	}
	neg, fin := verifHandlerNames(hn)
	negs := map[string]HandlerNegotiation{}
	fins := map[string]HandlerFinal{}
	for _, name := range neg {
		name := name
		v := false
		if vetoOK && len(name) > 0 && name[:1] != "E" && !(len(name) > 9 && name[len(name)-9:] == "Exception") {
			v = vBool()
		}
		s.veto[name] = v
		negs[name] = func(e *Event) bool {
			if s.eventHook != nil {
				s.eventHook(name, e)
			}
			s.record(name)
			return !s.veto[name]
		}
	}
	for _, name := range fin {
		name := name
		fins[name] = func(e *Event) {
			if s.eventHook != nil {
				s.eventHook(name, e)
			}
			s.record(name)
		}
	}
	s.m.HandlersBindMaps(negs, fins)
	vServe(s.m.handlerStart, func(call *handlerCall) {
		if vSymbolic() && vPendingTasks()-s.loopsDied < 1 {
			s.wedged = true
		}
		ret := false
		if call.event.IsValid() {
			ret = call.Exec()
		}
		if s.faultNow {
			// what handlerLoop's deferred catch does after a real panic
			s.faultNow = false
			s.loopsDied++
			vReply(s.m.handlerPanic, recoveryData{err: "verif fault", event: call.event})
			return
		}
		vReply(s.m.handlerEnd, ret)
	})
}

func (s *verifScn) record(name string) {
	s.calls = append(s.calls, verifCall{name: name, active: s.m.ActiveStates(nil), time: s.m.time(nil)})
	if s.faultHook != nil && s.faultHook(name) {
		if vSymbolic() {
			s.faultNow = true
			return
		}
		panic("verif fault")
	}
	if s.nestIn == name && s.nestFn != nil {
		f := s.nestFn
		s.nestFn = nil
		f()
	}
}

// inject writes a symbolic consistent pre-state with arbitrary (parity-consistent) ticks.
func (s *verifScn) inject(symTicks bool) {
	s.pre = verifPre(s.names)
	vAssume(verifConsistent(s.schema, s.pre))
	vAssume(verifReachable(s.raw, s.pre))
	verifInject(s.m, s.pre, func(i int) uint64 {
		if symTicks {
			// < 2^62 so that a tick cannot wrap (stated bound)
			return vU64() >> 2
		}
		return 0
	})
	s.preT = s.m.time(nil)
}

// mutate issues one symbolic mutation: kind 0 Add, 1 Remove, 2 Set.
func (s *verifScn) mutate() (kind int, called S, res Result) {
	return s.mutateKind(vParam("mut", -1))
}

func (s *verifScn) mutateKind(k int) (kind int, called S, res Result) {
	kind = k
	if kind < 0 {
		kind = vInt(0, 2)
	}
	called = verifCalled(s.names)
	vAssume(len(called) > 0)
	switch kind {
	case 0:
		res = s.m.Add(called, nil)
	case 1:
		res = s.m.Remove(called, nil)
	default:
		res = s.m.Set(called, nil)
	}
	return
}

func verifSameSet(a, b S) bool {
	if len(a) != len(b) {
		return false
	}
	for _, x := range a {
		if !verifHas(b, x) {
			return false
		}
	}
	return true
}

func verifSameTime(a, b Time) bool {
	if len(a) != len(b) {
		return false
	}
	for i := range a {
		if a[i] != b[i] {
			return false
		}
	}
	return true
}
