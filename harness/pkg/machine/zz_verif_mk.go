package machine

// MK: common building blocks of the machine-level harnesses (DESIGN.md section 4).

//verif:go * drop
//verif:go (*github.com/pancsta/asyncmachine-go/pkg/machine.Machine).handlerLoop task
//verif:mode fork
//verif:panics violation
//verif:notimers
//verif:override github.com/pancsta/asyncmachine-go/pkg/machine.randId verifRandId

func verifRandId(strLen int) string { return "vid" }

func verifNames(n int) S { return S{"A", "B", "C", "D", "E"}[:n] }

// verifSublist returns a symbolic sub-list of names (index order).
func verifSublist(names S) S {
	var out S
	for _, s := range names {
		if vBool() {
			out = append(out, s)
		}
	}
	return out
}

// verifBits hands out the bits of the case parameter "schema" one by one when it is set (the driver
// enumerates schemas as a case split); otherwise every bit is a fresh symbolic boolean.
type verifBits struct {
	code  int
	pos   uint
	sym   bool
	pbits uint // the first pbits bits come from pval (sharding of the symbolic space)
	pval  int
	// maxEdges > 0 bounds the number of relation bits that may be set (systematic sparse family)
	maxEdges int
	edges    int
}

func newVerifBits() *verifBits {
	c := vParam("schema", -1)
	return &verifBits{code: c, sym: c < 0, pbits: uint(vParam("pbits", 0)), pval: vParam("pval", 0), maxEdges: vParam("maxedges", 0)}
}

func (b *verifBits) next() bool {
	if b.sym {
		var r bool
		switch {
		case b.maxEdges > 0 && b.edges >= b.maxEdges:
			r = false
			if b.pos < b.pbits && b.pval&(1<<b.pos) != 0 {
				vAssume(false) // shard prefix exceeds the edge budget: empty shard
			}
		case b.pos < b.pbits:
			r = b.pval&(1<<b.pos) != 0
		default:
			r = vBool()
		}
		b.pos++
		if r {
			b.edges++
		}
		return r
	}
	r := b.code&(1<<b.pos) != 0
	b.pos++
	return r
}

func (b *verifBits) sublist(names S, skip string) S {
	var out S
	for _, s := range names {
		if s == skip {
			continue
		}
		if b.next() {
			out = append(out, s)
		}
	}
	return out
}

// verifSchemaBits builds a schema over n user states from the bit source: per state Require (n-1
// bits, no self), Add (n-1), Remove (n-1), then optionally Multi / Auto / After (n-1).
func verifSchemaBits(b *verifBits, n int, withAuto, withMulti, withAfter bool) Schema {
	names := verifNames(n)
	schema := Schema{}
	for _, s := range names {
		st := State{}
		// case parameter "only": 1 = only Add relations, 2 = only Require+After (ordering), 0 = all
		only := vParam("only", 0)
		if only != 1 {
			st.Require = b.sublist(names, s)
		}
		if only != 2 {
			st.Add = b.sublist(names, s)
		}
		if only == 0 {
			st.Remove = b.sublist(names, s)
		}
		if withMulti {
			st.Multi = b.next()
		}
		if withAuto {
			st.Auto = b.next()
		}
		if withAfter {
			st.After = b.sublist(names, s)
		}
		schema[s] = st
	}
	return schema
}

// verifSchema builds a schema over n user states with symbolic relations.
// withAuto / withMulti / withAfter switch those dimensions on.
func verifSchema(n int, withAuto, withMulti, withAfter bool) Schema {
	names := verifNames(n)
	schema := Schema{}
	for _, s := range names {
		st := State{}
		if withAuto {
			st.Auto = vBool()
		}
		if withMulti {
			st.Multi = vBool()
		}
		st.Require = verifSublist(names)
		st.Add = verifSublist(names)
		st.Remove = verifSublist(names)
		if withAfter {
			st.After = verifSublist(names)
		}
		schema[s] = st
	}
	return schema
}

// verifPre / verifCalled: symbolic pre-state and called set; the case parameters "emptypre" and
// "single" narrow them (used by the larger schema families to keep the number of paths down).
func verifPre(names S) S {
	if vParam("emptypre", 0) == 1 {
		return S{}
	}
	return verifSublist(names)
}

func verifCalled(names S) S {
	if vParam("single", 0) == 1 {
		return S{names[vInt(0, len(names)-1)]}
	}
	return verifSublist(names)
}

func verifHas(list S, s string) bool {
	for _, x := range list {
		if x == s {
			return true
		}
	}
	return false
}

// verifConsistent is the property's own invariant on an active set.
func verifConsistent(schema Schema, active S) bool {
	ok := true
	for _, s := range active {
		st := schema[s]
		for _, r := range st.Require {
			if !verifHas(active, r) {
				ok = false
			}
		}
		for _, r := range st.Remove {
			if r != s && verifHas(active, r) {
				ok = false
			}
		}
	}
	return ok
}

// verifInject writes an active set (and parity-consistent ticks) into a fresh machine, the way
// TestMockClock-style tests do. base[i] is added twice to every tick so that ticks are arbitrary.
func verifInject(m *Machine, active S, base func(i int) uint64) {
	m.activeStates = active
	for i, name := range m.stateNames {
		t := base(i) * 2
		if verifHas(active, name) {
			t++
		}
		m.clock[name] = t
	}
}

// verifReachable searches (natively only) for a history of public mutations from the fresh
// machine that produces the injected active set; symbolic runs skip it.
func verifReachable(schema Schema, want S) bool {
	if vSymbolic() {
		return true
	}
	names := S{}
	for k := range schema {
		names = append(names, k)
	}
	key := func(a S) string {
		s := ""
		for _, n := range names {
			if verifHas(a, n) {
				s += n + ","
			}
		}
		return s
	}
	// sort names for determinism
	for i := range names {
		for j := i + 1; j < len(names); j++ {
			if names[j] < names[i] {
				names[i], names[j] = names[j], names[i]
			}
		}
	}
	target := key(want)
	seen := map[string]bool{"": true}
	frontier := []S{{}}
	if target == "" {
		return true
	}
	for depth := 0; depth < 6 && len(frontier) > 0; depth++ {
		var next []S
		for _, cur := range frontier {
			for mt := 0; mt < 3; mt++ {
				for mask := 1; mask < 1<<len(names); mask++ {
					var called S
					for i, n := range names {
						if mask&(1<<i) != 0 {
							called = append(called, n)
						}
					}
					m := New(nil, schema.Clone(), nil)
					if len(cur) > 0 {
						verifInject(m, append(S{}, cur...), func(int) uint64 { return 0 })
					}
					switch mt {
					case 0:
						m.Add(called, nil)
					case 1:
						m.Remove(called, nil)
					case 2:
						m.Set(called, nil)
					}
					got := m.ActiveStates(nil)
					k := key(got)
					if k == target {
						return true
					}
					if !seen[k] {
						seen[k] = true
						next = append(next, got)
					}
				}
			}
		}
		frontier = next
	}
	vLog("unreachable-prestate", 1)
	return false
}

// ---- schedule exploration (C04): the functions named below are instrumented with a verifSched call
// before every statement (see symgo/instrument.go); while a preemption is pending each such point asks
// a symbolic boolean whether the other goroutine's call runs there, as one atomic block (the running
// goroutine must not hold a mutex: the other call could block on it).

//verif:instrument pkg/machine/machine.go processQueue queueMutation PrependMut Eval

var verifPreemptFn func()
var verifPreemptAt string

func vPreempt(fn func()) {
	verifPreemptFn = fn
	verifPreemptAt = ""
}

func verifSched(k int, where string) {
	if verifPreemptFn == nil {
		return
	}
	b := vBool()
	if vLocksHeld() {
		vAssume(!b)
		return
	}
	if b {
		fn := verifPreemptFn
		verifPreemptFn = nil
		verifPreemptAt = where
		vLog("preempt-at", uint64(k))
		vJoin(fn)
	}
}
