package machine

// C17 (Export / Import clause): a machine rebuilt with Import from an Export has the same ticks and active
// states, by name, and a machine tick one higher.

func init() {
	verifRegister("VerifC17Export", VerifC17Export)
}

// VerifC17Export: any consistent pre-state with symbolic ticks and a symbolic machine tick, exported from a
// machine whose verified state order is a symbolic rotation / reversal of the default one, imported into a
// fresh machine of the same schema and id (default order).
func VerifC17Export() {
	s := verifNewScn(vParam("n", 2), false, false, false, false, false, false)
	m := s.m
	// exporter's state order: rotate by r, optionally reversed
	def := m.StateNames()
	r := vInt(0, len(def)-1)
	rev := vBool()
	order := S{}
	for i := range def {
		j := i + r
		if j >= len(def) {
			j -= len(def)
		}
		if rev {
			j = len(def) - 1 - j
		}
		order = append(order, def[j])
	}
	vAssume(m.VerifyStates(order) == nil)
	s.inject(true)
	m.machineTick = uint32(vU64()>>33) // < 2^31: +1 cannot wrap (stated bound)
	vReach("export")
	ser, schema, err := m.Export()
	vAssert("export-ok", err == nil && ser != nil)
	if err != nil || ser == nil {
		return
	}
	vAssert("export-time-is-machine-time", verifSameTime(ser.Time, s.preT) && ser.MachineTick == m.machineTick)
	m2 := New(nil, schema, &Opts{Id: m.id})
	err = m2.Import(ser)
	vAssert("import-ok", err == nil)
	if err != nil {
		return
	}
	vAssert("machine-tick-one-higher", m2.MachineTick() == m.MachineTick()+1)
	same := true
	for _, name := range def {
		if m2.Tick(name) != m.Tick(name) || m2.Is1(name) != verifHas(s.pre, name) {
			same = false
		}
		// index-based and name-based readers agree after the import
		i := m2.Index1(name)
		if i < 0 || m2.Time(nil)[i] != m.Tick(name) || m2.Time(S{name})[0] != m.Tick(name) {
			same = false
		}
	}
	vAssert("same-ticks-by-name", same)
	vAssert("same-active-set", verifSameSet(m2.ActiveStates(nil), s.pre))
	vAssert("parity-is-activity", func() bool {
		for _, name := range def {
			if IsActiveTick(m2.Tick(name)) != m2.Is1(name) {
				return false
			}
		}
		return true
	}())
	// the exporter is untouched, and the export does not alias the machine
	vAssert("exporter-unchanged", verifSameTime(m.time(nil), s.preT) && verifSameSet(m.activeStates, s.pre))
	if len(ser.Time) > 0 {
		ser.Time[0] += 2
		vAssert("export-is-a-copy", verifSameTime(m.time(nil), s.preT))
	}
}
