package machine

func init() {
	verifRegister("VerifC02Step", VerifC02Step)
}

// verifNoTopology replaces graph.TopologicalSort: the C02 assertions are on sets, handler order
// (the only consumer of the topology) is C05's subject.
func verifNoTopology(g *graph) ([]string, error) { return nil, nil }

//verif:override (*github.com/pancsta/asyncmachine-go/pkg/machine.graph).TopologicalSort verifNoTopology
// VerifC02Step: one inductive step of the relation resolver through the public mutation API on a
// machine without handlers: symbolic schema (Require/Add/Remove, Multi), symbolic consistent
// active set, symbolic mutation.
func VerifC02Step() {
	n := vParam("n", 2)
	names := verifNames(n)
	raw := verifSchemaBits(newVerifBits(), n, false, vParam("multi", 1) == 1, vParam("after", 0) == 1)
	vStats("schema")
	parsed, err := raw.Parse()
	vStats("parse")
	vAssume(err == nil)
	m := New(nil, raw, nil)
	schema := m.schema
	_ = parsed
	vStats("new")

	pre := verifPre(names)
	vAssume(verifConsistent(schema, pre))
	vAssume(verifReachable(raw, pre))
	verifInject(m, pre, func(int) uint64 { return 0 })

	vStats("inject")
	mt := vParam("mut", -1)
	if mt < 0 {
		mt = vInt(0, 2)
	}
	called := verifCalled(names)
	vAssume(len(called) > 0)
	var res Result
	switch mt {
	case 0:
		res = m.Add(called, nil)
	case 1:
		res = m.Remove(called, nil)
	default:
		res = m.Set(called, nil)
	}
	post := m.activeStates
	vStats("mutation")
	vReach("step")
	vLog("res", uint64(res))
	vLog("npost", uint64(len(post)))

	// (i) + (ii)
	reqOK, remOK := true, true
	for _, s := range post {
		st := schema[s]
		for _, r := range st.Require {
			if !verifHas(post, r) {
				reqOK = false
			}
		}
		for _, r := range st.Remove {
			if r != s && verifHas(post, r) {
				remOK = false
			}
		}
	}
	// known finding: a state that is in the target only through Add relations (not called, and not
	// carried over from the active set: a Set drops those) keeps a state it Removes
	impliedRemover := false
	for _, p := range post {
		if verifHas(called, p) || (verifHas(pre, p) && mt != 2) {
			continue
		}
		for _, r := range schema[p].Remove {
			if r != p && verifHas(post, r) {
				impliedRemover = true
			}
		}
	}
	vKnown("c02-remove-by-implied-state-not-enforced", impliedRemover)
	vAssert("require-closed", reqOK)
	vAssert("no-remove-conflict", remOK)

	// (iii) Add relations of newly activated states are honoured
	addOK := true
	for _, s := range post {
		if verifHas(pre, s) {
			continue
		}
		for _, a := range schema[s].Add {
			if verifHas(post, a) {
				continue
			}
			excused := false
			for _, p := range post {
				if verifHas(schema[p].Remove, a) {
					excused = true
				}
			}
			for _, r := range schema[a].Require {
				if !verifHas(post, r) {
					excused = true
				}
			}
			if !excused {
				addOK = false
			}
		}
	}
	// known finding: the Add closure is only expanded two levels deep (one level per parseAdd pass)
	deep := false
	if !addOK {
		// distance of every state from the called set along Add relations
		dist := map[string]int{}
		for _, c := range called {
			dist[c] = 0
		}
		for round := 0; round < len(names); round++ {
			for _, s := range names {
				d, ok := dist[s]
				if !ok {
					continue
				}
				for _, a := range schema[s].Add {
					if old, ok := dist[a]; !ok || old > d+1 {
						dist[a] = d + 1
					}
				}
			}
		}
		for _, s := range names {
			if d, ok := dist[s]; ok && d >= 3 && !verifHas(post, s) {
				deep = true
			}
		}
	}
	vKnown("c02-add-chain-beyond-two-levels", deep)
	vAssert("add-honoured", addOK)

	// (iv) justification
	justOK := true
	for _, s := range names {
		was, is := verifHas(pre, s), verifHas(post, s)
		if !was && is {
			j := (mt != 1 && verifHas(called, s))
			for _, p := range post {
				if p != s && verifHas(schema[p].Add, s) {
					j = true
				}
			}
			if !j {
				justOK = false
			}
		}
		if was && !is {
			j := (mt == 1 && verifHas(called, s)) || (mt == 2 && !verifHas(called, s))
			for _, p := range names {
				if verifHas(schema[p].Remove, s) && (verifHas(post, p) || verifHas(called, p)) {
					j = true
				}
			}
			for _, r := range schema[s].Require {
				if !verifHas(post, r) {
					j = true
				}
			}
			if !j {
				justOK = false
			}
		}
	}
	vAssert("justified", justOK)

	// result truthfulness belongs to C03; here only: Canceled leaves the set alone
	if res == Canceled {
		same := len(pre) == len(post)
		for _, s := range pre {
			if !verifHas(post, s) {
				same = false
			}
		}
		vAssert("canceled-unchanged", same)
	}
}
