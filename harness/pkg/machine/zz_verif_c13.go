package machine

import "context"

func init() {
	verifRegister("VerifC13Dispose", VerifC13Dispose)
	verifRegister("VerifC04Nested", VerifC04Nested)
	verifRegister("VerifC13InFlight", VerifC13InFlight)
	verifRegister("VerifC04Race", VerifC04Race)
	verifRegister("VerifC08Fault", VerifC08Fault)
	verifRegister("VerifC11Determinism", VerifC11Determinism)
}

// VerifC13Dispose: after (forced, synchronous) disposal every outstanding waiter is released,
// dispose handlers ran exactly once, later calls return neutral values.
func VerifC13Dispose() {
	m := New(nil, Schema{"A": {}, "B": {}}, nil)
	m.Add1("A", nil)
	type waiter struct {
		name string
		ch   <-chan struct{}
	}
	var ws []waiter
	var ctx context.Context
	if vBool() {
		c, cancel := context.WithCancel(context.Background())
		defer cancel()
		ctx = c
	}
	if vBool() {
		ws = append(ws, waiter{"When", m.When(S{"B"}, ctx)})
	}
	if vBool() {
		ws = append(ws, waiter{"WhenNot", m.WhenNot(S{"A"}, ctx)})
	}
	if vBool() {
		ws = append(ws, waiter{"WhenTime", m.WhenTime(S{"B"}, Time{7}, ctx)})
	}
	if vBool() {
		ws = append(ws, waiter{"WhenArgs", m.WhenArgs("B", A{"x": 1}, ctx)})
	}
	if vBool() {
		ws = append(ws, waiter{"WhenQueue", m.WhenQueue(Result(99))})
	}
	hasQuery := vBool()
	var qch <-chan struct{}
	if hasQuery {
		qch = m.WhenQuery(func(c Clock) bool { return false }, nil)
	}
	var sctx context.Context
	if vBool() {
		sctx = m.NewStateCtx("A")
	}
	nh := vInt(0, 2)
	calls := make([]int, nh)
	for i := 0; i < nh; i++ {
		i := i
		m.OnDispose(func(id string, ctx context.Context) { calls[i]++ })
	}
	twice := vBool()
	m.DisposeForce()
	if twice {
		m.DisposeForce()
	}
	vReach("disposed")
	vAssert("when-disposed-closed", verifClosed(m.WhenDisposed()))
	vAssert("is-disposed", m.IsDisposed())
	all := true
	for _, w := range ws {
		if !verifClosed(w.ch) {
			all = false
		}
	}
	vAssert("waiters-released", all)
	if hasQuery {
		vKnown("c13-whenquery-not-closed-on-dispose", true)
		vAssert("whenquery-released", verifClosed(qch))
	}
	if sctx != nil {
		vAssert("state-ctx-cancelled", sctx.Err() != nil)
	}
	once := true
	for _, c := range calls {
		if c != 1 {
			once = false
		}
	}
	vAssert("dispose-handlers-once", once)
	// later calls are neutral
	vAssert("add-after-dispose-canceled", m.Add1("B", nil) == Canceled)
	vAssert("remove-after-dispose-canceled", m.Remove1("A", nil) == Canceled)
	vAssert("set-after-dispose-canceled", m.Set(S{"B"}, nil) == Canceled)
	vAssert("canadd-after-dispose-canceled", m.CanAdd1("B", nil) == Canceled)
	vAssert("when-after-dispose-closed", verifClosed(m.When1("B", nil)))
	vAssert("whennot-after-dispose-closed", verifClosed(m.WhenNot1("A", nil)))
	vAssert("whentime-after-dispose-closed", verifClosed(m.WhenTime1("B", 9, nil)))
	vAssert("is-after-dispose-false", !m.Is1("A") && !m.Any1("A", "B"))
	vAssert("context-ended", m.Context().Err() != nil)
}

// VerifC13InFlight: DisposeForce lands inside a running transition - from a tracer hook (init, start,
// finals, end: the points between the steps of a transition, as a concurrent caller would hit them) or
// from inside a negotiation / final handler of the same machine. Every waiter is released, the call
// returns, later calls are neutral.
func VerifC13InFlight() {
	s := verifNewScn(2, false, false, false, true, true, false)
	s.inject(false)
	m := s.m
	type waiter struct {
		name string
		ch   <-chan struct{}
	}
	var ws []waiter
	st := s.names[vInt(0, 1)]
	if vBool() {
		ws = append(ws, waiter{"When", m.When1(st, nil)})
	}
	if vBool() {
		ws = append(ws, waiter{"WhenNot", m.WhenNot1(st, nil)})
	}
	if vBool() {
		ws = append(ws, waiter{"WhenTime", m.WhenTime1(st, m.Tick(st)+1, nil)})
	}
	if vBool() {
		ws = append(ws, waiter{"WhenBoth", m.When(S{"A", "B"}, nil)})
	}
	if vBool() {
		ws = append(ws, waiter{"WhenQuery", m.WhenQuery(func(c Clock) bool { return true }, nil)})
	}
	var sctx context.Context
	if vBool() {
		sctx = m.NewStateCtx(st)
	}
	at := vParam("at", -1)
	if at < 0 {
		at = vInt(0, 5)
	}
	landed := false
	land := func() {
		if !landed {
			landed = true
			m.DisposeForce()
		}
	}
	s.traceHook = func(kind string) {
		if (at == 0 && kind == "init") || (at == 1 && kind == "start") || (at == 2 && kind == "finals") || (at == 3 && kind == "end") {
			land()
		}
	}
	s.eventHook = func(name string, e *Event) {
		if (at == 4 && verifRank(name) <= 3) || (at == 5 && verifRank(name) == 4) {
			land()
		}
	}
	mst := s.names[vInt(0, 1)]
	if vBool() {
		m.Add1(mst, nil)
	} else {
		m.Remove1(mst, nil)
	}
	vAssume(landed)
	vReach("inflight")
	vAssert("when-disposed-closed", verifClosed(m.WhenDisposed()))
	vAssert("is-disposed", m.IsDisposed())
	all := true
	for _, w := range ws {
		if !verifClosed(w.ch) {
			all = false
		}
	}
	vAssert("waiters-released", all)
	if sctx != nil {
		vAssert("state-ctx-cancelled", sctx.Err() != nil)
	}
	vAssert("add-after-dispose-canceled", m.Add1("B", nil) == Canceled)
	vAssert("remove-after-dispose-canceled", m.Remove1("A", nil) == Canceled)
	vAssert("when-after-dispose-closed", verifClosed(m.When1("B", nil)))
	vAssert("context-ended", m.Context().Err() != nil)
}

// VerifC04Race: a second goroutine's mutation lands, as one atomic block, at a symbolic point of the
// first goroutine's queueMutation / processQueue (every statement boundary where no mutex is held).
// One transition at a time, ticks in order, nothing stranded: once both calls have returned the
// machine is idle, so the queue must be empty and every ticked mutation processed.
func VerifC04Race() {
	s := verifNewScn(2, false, false, false, true, true, false)
	s.inject(false)
	m := s.m
	k2 := vParam("mut2", -1)
	if k2 < 0 {
		k2 = vInt(0, 2)
	}
	called2 := verifCalled(s.names)
	vAssume(len(called2) > 0)
	ran2 := false
	var res2 Result
	var wq <-chan struct{}
	g2 := func() {
		ran2 = true
		switch k2 {
		case 0:
			res2 = m.Add(called2, nil)
		case 1:
			res2 = m.Remove(called2, nil)
		default:
			res2 = m.Set(called2, nil)
		}
		if res2 > Canceled {
			wq = m.WhenQueue(res2)
		}
	}
	// what the first goroutine does: 0 a mutation, 1 an Eval during whose function the second call happens,
	// 2 an Eval with the second call at a symbolic point of Eval / PrependMut / processQueue
	var res1 Result
	switch vParam("g1", 0) {
	case 0:
		vPreempt(g2)
		_, _, res1 = s.mutate()
	case 1:
		m.Eval("verif", func() { vJoin(g2) }, nil)
	default:
		vPreempt(g2)
		m.Eval("verif", func() {}, nil)
	}
	vPreempt(nil)
	vAssume(ran2)
	vReach("race")
	vLog("res1", uint64(res1))
	vLog("res2", uint64(res2))
	depth, overlap := 0, false
	queued, ended := 0, 0
	ordered := true
	var lastTick uint64
	seen2, acc2 := false, false
	for _, e := range s.tr.log {
		switch e.kind {
		case "queued":
			queued++
		case "init":
			depth++
			if depth > 1 {
				overlap = true
			}
		case "end":
			depth--
			ended++
			if e.mut.QueueTick > 0 {
				if e.mut.QueueTick < lastTick {
					ordered = false
				}
				lastTick = e.mut.QueueTick
			}
			if res2 > Canceled && e.mut.QueueTick == uint64(res2) {
				seen2 = true
				acc2 = e.acc
			}
		}
	}
	vAssert("one-transition-at-a-time", !overlap)
	vAssert("processed-in-tick-order", ordered)
	// the known window: the other call lands after the drain loop's last length check and before the
	// processing flag is released
	vKnown("c04-mutation-stranded-in-release-window", verifPreemptAt == "processQueue: m.t.Store(nil)" ||
		verifPreemptAt == "processQueue: m.queueProcessing.Store(false)")
	vAssert("queue-empty-when-idle", len(m.queue) == 0 && m.queueLen.Load() == 0 && !m.queueProcessing.Load())
	vAssert("every-queued-mutation-processed", queued == ended)
	if res2 > Canceled {
		vAssert("ticked-mutation-processed", seen2 && m.queueTick >= uint64(res2))
		vKnown("c04-whenqueue-not-closed-when-canceled", seen2 && !acc2)
		vAssert("whenqueue-closed-once-processed", verifClosed(wq))
	}
}

// VerifC04Nested: a mutation issued from inside a handler is queued, runs after the current
// transition in queue-tick order, and its WhenQueue channel closes once it has been processed.
func VerifC04Nested() {
	s := verifNewScn(2, false, true, false, true, true, vParam("vetos", 1) == 1)
	s.inject(false)
	m := s.m
	// which handler issues the nested mutation
	neg, fin := verifHandlerNames(s.names)
	allH := append(append([]string{}, neg...), fin...)
	s.nestIn = allH[vInt(0, len(allH)-1)]
	nk := vParam("nk", -1)
	if nk < 0 {
		nk = vInt(0, 2)
	}
	ncalled := verifSublist(s.names)
	vAssume(len(ncalled) > 0)
	nested := false
	var nres Result
	var wq <-chan struct{}
	tick0 := m.queueTick
	logAtNest := -1
	// what else sits in the queue: 0 nothing; 1 a tick-less check mutation (CanAdd1) is prepended before the
	// nested mutation; 2 an Eval whose context has already ended is prepended in front of it afterwards
	around := vParam("around", 0)
	evalRan := false
	s.nestFn = func() {
		nested = true
		logAtNest = len(s.tr.log)
		if around == 1 {
			m.CanAdd1(s.names[vInt(0, 1)], nil)
		}
		switch nk {
		case 0:
			nres = m.Add(ncalled, nil)
		case 1:
			nres = m.Remove(ncalled, nil)
		default:
			nres = m.Set(ncalled, nil)
		}
		if nres > Canceled {
			wq = m.WhenQueue(nres)
		}
		if around == 2 {
			ectx, ecancel := context.WithCancel(context.Background())
			ecancel()
			m.Eval("verif", func() { evalRan = true }, ectx)
		}
	}
	_, _, res := s.mutate()
	vAssume(nested)
	vReach("nested")
	vLog("res", uint64(res))
	vLog("nres", uint64(nres))
	// never executed inline: either queued (a queue tick) or dropped without running
	ranInline := false
	depth := 0
	for i, e := range s.tr.log {
		if i < logAtNest {
			continue
		}
		_ = e
	}
	// the tracer log shows init/end strictly alternating: no nested transition
	for _, e := range s.tr.log {
		switch e.kind {
		case "init":
			depth++
			if depth > 1 {
				ranInline = true
			}
		case "end":
			depth--
		}
	}
	vAssert("never-nested", !ranInline)
	vAssert("expired-eval-never-runs", !evalRan)
	vAssert("nested-returns-tick-or-noop", nres > Canceled || nres == Executed || nres == Canceled)
	vAssert("queue-empty-when-idle", len(m.queue) == 0 && m.queueLen.Load() == 0 && !m.queueProcessing.Load())
	if nres > Canceled {
		vAssert("queue-tick-is-next", uint64(nres) == tick0+2)
		vAssert("queue-tick-advanced", m.queueTick >= uint64(nres))
		// was the queued mutation accepted when its turn came?
		nestedAccepted, nestedSeen := false, false
		for _, e := range s.tr.log {
			if e.kind == "end" && e.mut.QueueTick == uint64(nres) {
				nestedSeen = true
				nestedAccepted = e.acc
			}
		}
		vAssert("queued-mutation-was-processed", nestedSeen)
		vKnown("c04-whenqueue-not-closed-when-canceled", nestedSeen && !nestedAccepted)
		vAssert("whenqueue-closed-once-processed", verifClosed(wq))
	}
}

// VerifC08Fault: a panic at a symbolic handler position: contained, Exception active, negotiation
// faults leave state untouched, final-phase faults roll back what had not completed.
func VerifC08Fault() {
	s := verifNewScn(2, false, false, false, false, true, false)
	s.bindAll(false, true)
	s.inject(false)
	m := s.m
	faultAt := vInt(0, 5)
	call := 0
	faulted := ""
	// excfault: a second fault inside a handler of the Exception state itself (1: ExceptionEnter, 2: ExceptionState)
	excFault := vParam("excfault", 0)
	excDone := false
	s.faultHook = func(name string) bool {
		if faulted != "" && !excDone && ((excFault == 1 && name == "ExceptionEnter") || (excFault == 2 && name == "ExceptionState")) {
			excDone = true
			return true
		}
		if call == faultAt && faulted == "" && !(len(name) >= 9 && (name[:9] == "Exception" || name[len(name)-9:] == "Exception")) {
			call++
			faulted = name
			return true
		}
		call++
		return false
	}
	double := vParam("double", 0) == 1
	excIdx := verifIdx(m.stateNames, StateException)
	if double {
		// an earlier fault: Exception is still active when the symbolic fault below happens
		first := faultAt
		faultAt = 0
		m.Add1(s.names[vInt(0, 1)], nil)
		vAssume(faulted != "")
		vAssume(m.IsErr())
		faulted = ""
		call = 0
		faultAt = first
		s.calls = nil
		s.pre = m.ActiveStates(nil)
		s.preT = m.time(nil)
	}
	_, _, res := s.mutate()
	vAssume(faulted != "")
	if excFault > 0 {
		vAssume(excDone)
		vReach("excfault")
		// the machine lives on: later mutations (with handlers) return
		done := vCompletes(func() {
			m.Remove1(StateException, nil)
			m.Add1(s.names[0], nil)
			m.Remove1(s.names[0], nil)
		})
		vKnown("c08-fault-in-exception-handler-kills-handler-loop", true)
		vAssert("machine-not-wedged-after-exception-handler-fault", done && !s.wedged)
		return
	}
	post := m.ActiveStates(nil)
	postT := m.time(nil)
	vReach("fault")
	if double {
		// the second fault is handled like the first one: Exception is called again (Multi: a new instance)
		vAssert("second-fault-reported", postT[excIdx] == s.preT[excIdx]+2)
	}
	vLog("res", uint64(res))
	vAssert("exception-active", m.IsErr())
	par := true
	for i, name := range m.stateNames {
		if (postT[i]%2 == 1) != verifHas(post, name) {
			par = false
		}
	}
	vAssert("parity-is-activity-after-fault", par)
	if verifRank(faulted) <= 3 {
		// negotiation fault: nothing but Exception changed
		same := true
		for i, name := range m.stateNames {
			if name == StateException {
				continue
			}
			if postT[i] != s.preT[i] {
				same = false
			}
		}
		vAssert("negotiation-fault-leaves-state", same)
		vAssert("negotiation-fault-canceled", res == Canceled)
	}
	if verifRank(faulted) == 4 {
		// final-phase fault: exactly the changes whose final handler had not completed are rolled back.
		// finals run Exits (End handlers) first, then Enters (State handlers), in call order.
		var finals []string
		for _, c := range s.calls {
			if verifRank(c.name) == 4 && !(len(c.name) >= 9 && c.name[:9] == "Exception") {
				finals = append(finals, c.name)
			}
		}
		rolled := true
		done := true
		for _, name := range finals {
			st := name[:1]
			if name == faulted {
				done = false
			}
			isEnter := name[1:] == "State"
			was := verifHas(s.pre, st)
			now := verifHas(post, st)
			if done {
				// completed: the change stays (unless a later auto / exception transition touched it)
				continue
			}
			if isEnter && !was && now {
				rolled = false // activation whose State handler did not complete is still there
			}
			if !isEnter && was && !now {
				rolled = false // deactivation whose End handler did not complete was not undone
			}
		}
		vKnown("c08-end-handler-fault-not-rolled-back", len(faulted) > 3 && faulted[1:] == "End")
		vAssert("final-fault-rolls-back-incomplete-changes", rolled)
	}
	// the machine lives on
	r2 := m.Remove1(StateException, nil)
	vAssert("machine-accepts-mutations-after-fault", r2 == Executed && !m.IsErr())
}

//verif:permute NewAutoMutation TopologicalSort ParseStates ParseStates>maps.Keys TargetStates>maps.Keys NewAutoMutation>maps.Keys
//verif:maxpaths 6000
// VerifC11Determinism: same schema + same mutation give the same result, machine time and handler
// sequence whatever order the maps are iterated in. Symbolically: two runs with independently
// chosen iteration orders; natively: 48 re-executions compared with the first.
func VerifC11Determinism() {
	n := vParam("n", 2)
	bits := newVerifBits()
	raw := verifSchemaBits(bits, n, true, false, false)
	_, err := raw.Parse()
	vAssume(err == nil)
	pre := verifSublist(verifNames(n))
	kind := vParam("mut", -1)
	if kind < 0 {
		kind = vInt(0, 2)
	}
	called := verifSublist(verifNames(n))
	vAssume(len(called) > 0)
	runs := 2
	if !vSymbolic() {
		runs = 48
	}
	var res0 Result
	var time0 Time
	var calls0 []string
	same := true
	for r := 0; r < runs; r++ {
		vMapOrder(r)
		s := &verifScn{n: n, names: verifNames(n), raw: raw}
		s.m = New(nil, raw.Clone(), nil)
		s.schema = s.m.schema
		if r == 0 {
			vAssume(verifConsistent(s.schema, pre))
		}
		s.bindAll(false, false)
		verifInject(s.m, append(S{}, pre...), func(int) uint64 { return 0 })
		var res Result
		switch kind {
		case 0:
			res = s.m.Add(called, nil)
		case 1:
			res = s.m.Remove(called, nil)
		default:
			res = s.m.Set(called, nil)
		}
		t := s.m.time(nil)
		var names []string
		for _, c := range s.calls {
			names = append(names, c.name)
		}
		if r == 0 {
			res0, time0, calls0 = res, t, names
			continue
		}
		if res != res0 || !verifSameTime(t, time0) || len(names) != len(calls0) {
			same = false
		} else {
			for i := range names {
				if names[i] != calls0[i] {
					same = false
				}
			}
		}
	}
	vMapOrder(-1)
	vReach("determinism")
	vAssert("same-history-same-machine", same)
}
