package machine

import "context"

func init() {
	verifRegister("VerifC06Wait", VerifC06Wait)
	verifRegister("VerifC06SharedCtx", VerifC06SharedCtx)
	verifRegister("VerifC06QueryCtx", VerifC06QueryCtx)
	verifRegister("VerifC06Schema", VerifC06Schema)
	verifRegister("VerifC06TimePair", VerifC06TimePair)
}

func verifClosed(ch <-chan struct{}) bool {
	select {
	case <-ch:
		return true
	default:
		return false
	}
}

// VerifC06Wait: no lost or spurious wake-ups for the When* family and NewStateCtx, with the
// subscription placed before a transition, between its apply step and processSubscriptions (from
// a final handler), or after it; optional cancelation context.
func VerifC06Wait() {
	kind := vParam("kind", 0)
	pos := vParam("pos", 0)
	s := verifNewScn(2, vParam("auto", 0) == 1, true, false, true, true, false)
	s.inject(false)
	m := s.m
	names := s.names

	sub := verifSublist(names)
	vAssume(len(sub) > 0)
	st := sub[0]
	stIdx := verifIdx(m.stateNames, st)
	extra := uint64(vParam("extra", 1))

	var ctx context.Context
	var cancel context.CancelFunc
	withCtx := false
	switch vParam("ctx", -1) {
	case -1:
		withCtx = vBool()
	case 1:
		withCtx = true
	}
	if withCtx {
		ctx, cancel = context.WithCancel(context.Background())
	}

	var ch <-chan struct{}
	var sctx context.Context
	var subTime Time
	var subActive S
	subLog := -1
	var qTarget uint64
	subscribe := func() {
		subActive = m.ActiveStates(nil)
		subTime = m.time(nil)
		subLog = len(s.tr.log)
		switch kind {
		case 0:
			ch = m.When(sub, ctx)
		case 1:
			ch = m.WhenNot(sub, ctx)
		case 2:
			times := make(Time, len(sub))
			for i, x := range sub {
				times[i] = m.Tick(x) + extra
			}
			ch = m.WhenTime(sub, times, ctx)
		case 3:
			ch = m.WhenTicks(st, int(extra), ctx)
		case 4:
			ch = m.WhenNextActive(st, ctx)
		case 5:
			want := m.Tick(st) + extra
			ch = m.WhenQuery(func(c Clock) bool { return c[st] >= want }, ctx)
		case 6:
			sctx = m.NewStateCtx(st)
		case 7:
			qTarget = m.queueTick + extra
			ch = m.WhenQueue(Result(qTarget))
		}
	}
	cond := func(active S, t Time, qtick uint64, atSubscribe bool) bool {
		switch kind {
		case 0:
			for _, x := range sub {
				if !verifHas(active, x) {
					return false
				}
			}
			return true
		case 1:
			for _, x := range sub {
				if verifHas(active, x) {
					return false
				}
			}
			return true
		case 2:
			for _, x := range sub {
				i := verifIdx(m.stateNames, x)
				if t[i] < subTime[i]+extra {
					return false
				}
			}
			return true
		case 3:
			return t[stIdx] >= subTime[stIdx]+extra
		case 4:
			return t[stIdx] >= subTime[stIdx]+uint64(NextActiveIn(subTime[stIdx]))
		case 5:
			return !atSubscribe && t[stIdx] >= subTime[stIdx]+extra
		case 7:
			return qtick >= qTarget
		}
		return false
	}

	if pos == 0 {
		subscribe()
	}
	if pos == 1 {
		s.nestIn = names[vInt(0, 1)] + "State"
		s.nestFn = subscribe
	}
	s.mutateKind(vParam("mut1", -1))
	if pos == 2 {
		subscribe()
	}
	vAssume(subLog >= 0)
	ctxEnded := false
	endLog := len(s.tr.log)
	if withCtx && vBool() {
		cancel()
		ctxEnded = true
	}
	s.mutate()
	vReach("wait")

	if kind == 6 {
		changed := m.Tick(st) != subTime[stIdx]
		vAssert("statectx-cancelled-iff-tick-changed", (sctx.Err() != nil) == changed)
		return
	}

	// did the condition hold at subscribe time or at the end of a later accepted transition?
	held := cond(subActive, subTime, m.queueTick, true) && kind != 7
	if kind == 7 {
		held = subTime != nil && qTarget <= 0
	}
	acceptedSinceCtxEnd := false
	swap := false // one awaited state activated while another awaited state is deactivated
	for i := subLog; i < len(s.tr.log); i++ {
		e := s.tr.log[i]
		if e.kind != "end" {
			continue
		}
		if kind == 7 {
			continue
		}
		if !e.acc || e.mut.IsCheck {
			continue
		}
		var act S
		for j, name := range m.stateNames {
			if e.after[j]%2 == 1 {
				act = append(act, name)
			}
		}
		if cond(act, e.after, 0, false) {
			held = true
		}
		up, down := false, false
		for _, x := range sub {
			j := verifIdx(m.stateNames, x)
			if e.before[j]%2 == 0 && e.after[j]%2 == 1 {
				up = true
			}
			if e.before[j]%2 == 1 && e.after[j]%2 == 0 {
				down = true
			}
		}
		if up && down {
			swap = true
		}
		if ctxEnded && i >= endLog {
			acceptedSinceCtxEnd = true
		}
	}
	if kind == 7 {
		// the queue tick only grows: processed iff the final tick reached the target
		held = m.queueTick >= qTarget
	}
	closed := verifClosed(ch)
	vLog("held", verifB(held))
	vLog("closed", verifB(closed))
	vKnown("c06-when-closes-on-swap", kind == 0 && swap)
	vAssert("no-lost-wakeup", !held || closed)
	vAssert("no-spurious-wakeup", !closed || held || (ctxEnded && kind != 7))
	if ctxEnded && acceptedSinceCtxEnd && kind != 7 {
		vAssert("closed-after-ctx-end", closed)
	}
}

func verifB(b bool) uint64 {
	if b {
		return 1
	}
	return 0
}

// VerifC06SharedCtx: two When / WhenNot subscriptions sharing one cancelation context; completing or
// collecting one of them must not lose the other's wake-ups (state match or context end).
func VerifC06SharedCtx() {
	s := verifNewScn(3, false, false, false, false, true, false)
	s.inject(false)
	m := s.m
	ctx, cancel := context.WithCancel(context.Background())
	type wsub struct {
		kind      int
		sub       S
		ch        <-chan struct{}
		subActive S
	}
	var subs [2]*wsub
	for i := range subs {
		w := &wsub{kind: vParam("k"+string(rune('1'+i)), 0)}
		if code := vParam("s1", 0); i == 0 && code > 0 {
			for b, name := range s.names {
				if code&(1<<b) != 0 {
					w.sub = append(w.sub, name)
				}
			}
		} else {
			w.sub = verifSublist(s.names)
		}
		vAssume(len(w.sub) > 0)
		w.subActive = m.ActiveStates(nil)
		if w.kind == 0 {
			w.ch = m.When(w.sub, ctx)
		} else {
			w.ch = m.WhenNot(w.sub, ctx)
		}
		subs[i] = w
	}
	step := func() {
		st := s.names[vInt(0, 2)]
		if vBool() {
			m.Add1(st, nil)
		} else {
			m.Remove1(st, nil)
		}
	}
	step()
	ctxEnded := false
	endLog := len(s.tr.log)
	if vBool() {
		cancel()
		ctxEnded = true
	}
	step()
	vReach("shared")
	for i, w := range subs {
		cond := func(active S) bool {
			for _, x := range w.sub {
				if verifHas(active, x) != (w.kind == 0) {
					return false
				}
			}
			return true
		}
		held := cond(w.subActive)
		accSinceEnd := false
		swap := false
		for j, e := range s.tr.log {
			if e.kind != "end" || !e.acc || e.mut.IsCheck {
				continue
			}
			var act S
			for k, name := range m.stateNames {
				if e.after[k]%2 == 1 {
					act = append(act, name)
				}
			}
			if cond(act) {
				held = true
			}
			up, down := false, false
			for _, x := range w.sub {
				k := verifIdx(m.stateNames, x)
				if e.before[k]%2 == 0 && e.after[k]%2 == 1 {
					up = true
				}
				if e.before[k]%2 == 1 && e.after[k]%2 == 0 {
					down = true
				}
			}
			if up && down {
				swap = true
			}
			if ctxEnded && j >= endLog {
				accSinceEnd = true
			}
		}
		closed := verifClosed(w.ch)
		vKnown("c06-when-closes-on-swap", w.kind == 0 && swap)
		if i == 0 {
			vAssert("no-lost-wakeup-1", !held || closed)
			vAssert("no-spurious-wakeup-1", !closed || held || ctxEnded)
			if ctxEnded && accSinceEnd {
				vAssert("closed-after-ctx-end-1", closed)
			}
		} else {
			vAssert("no-lost-wakeup-2", !held || closed)
			vAssert("no-spurious-wakeup-2", !closed || held || ctxEnded)
			if ctxEnded && accSinceEnd {
				vAssert("closed-after-ctx-end-2", closed)
			}
		}
	}
}

// VerifC06QueryCtx: two WhenQuery subscriptions, the first one bound to a cancelation context, over
// three single-state mutations; ending the context releases the first one (after a transition) and
// must not disturb the second one in any later transition.
func VerifC06QueryCtx() {
	s := verifNewScn(2, false, false, false, false, true, false)
	s.inject(false)
	m := s.m
	ctx, cancel := context.WithCancel(context.Background())
	tB := m.Tick("B")
	ch1 := m.WhenQuery(func(c Clock) bool { return c["B"] >= tB+2 }, ctx)
	nq := vInt(1, 2)
	var ch2, ch3 <-chan struct{}
	ch2 = m.WhenQuery(func(c Clock) bool { return c["A"]%2 == 1 }, nil)
	if nq == 2 {
		ch3 = m.WhenQuery(func(c Clock) bool { return c["A"]%2 == 0 }, nil)
	}
	sub := len(s.tr.log)
	step := func() {
		st := s.names[vInt(0, 1)]
		if vBool() {
			m.Add1(st, nil)
		} else {
			m.Remove1(st, nil)
		}
	}
	step()
	ctxEnded := false
	endLog := len(s.tr.log)
	if vBool() {
		cancel()
		ctxEnded = true
	}
	step()
	step()
	vReach("queryctx")
	iA, iB := verifIdx(m.stateNames, "A"), verifIdx(m.stateNames, "B")
	held1, held2, held3, accSinceEnd := false, false, false, false
	for j := sub; j < len(s.tr.log); j++ {
		e := s.tr.log[j]
		if e.kind != "end" || !e.acc || e.mut.IsCheck {
			continue
		}
		if e.after[iB] >= tB+2 {
			held1 = true
		}
		if e.after[iA]%2 == 1 {
			held2 = true
		} else {
			held3 = true
		}
		if ctxEnded && j >= endLog {
			accSinceEnd = true
		}
	}
	c1, c2 := verifClosed(ch1), verifClosed(ch2)
	vAssert("query1-no-lost-wakeup", !held1 || c1)
	vAssert("query1-no-spurious-wakeup", !c1 || held1 || ctxEnded)
	if accSinceEnd {
		vAssert("query1-closed-after-ctx-end", c1)
	}
	vAssert("query2-no-lost-wakeup", !held2 || c2)
	vAssert("query2-no-spurious-wakeup", !c2 || held2)
	if nq == 2 {
		c3 := verifClosed(ch3)
		vAssert("query3-no-lost-wakeup", !held3 || c3)
		vAssert("query3-no-spurious-wakeup", !c3 || held3)
	}
}

// VerifC06Schema: waiting after schema growth (SetSchema adds a state): WhenTime, WhenQuery, When,
// WhenNot and NewStateCtx subscribed after the change still follow the machine's clock.
func VerifC06Schema() {
	s := verifNewScn(2, false, false, false, false, true, false)
	s.inject(false)
	m := s.m
	sc := m.Schema()
	sc["C"] = State{}
	names := append(m.StateNames(), "C")
	err := m.SetSchema(sc, names)
	vAssume(err == nil)
	st := s.names[vInt(0, 1)]
	kind := vParam("kind", -1)
	if kind < 0 {
		kind = vInt(0, 4)
	}
	tick0 := m.Tick(st)
	act0 := m.Is1(st)
	var ch <-chan struct{}
	var sctx context.Context
	switch kind {
	case 0:
		ch = m.WhenTime1(st, tick0+1, nil)
	case 1:
		ch = m.WhenQuery(func(c Clock) bool { return c[st] > tick0 }, nil)
	case 2:
		sctx = m.NewStateCtx(st)
	case 3:
		ch = m.When1(st, nil)
	case 4:
		ch = m.WhenNot1(st, nil)
	}
	sub := len(s.tr.log)
	step := func() {
		x := names[vInt(0, len(names)-1)]
		vAssume(x != StateException)
		if vBool() {
			m.Add1(x, nil)
		} else {
			m.Remove1(x, nil)
		}
	}
	step()
	step()
	vReach("schema")
	i := verifIdx(m.stateNames, st)
	moved, wasActive, wasInactive := false, act0, !act0
	for j := sub; j < len(s.tr.log); j++ {
		e := s.tr.log[j]
		if e.kind != "end" || !e.acc || e.mut.IsCheck {
			continue
		}
		if e.after[i] > tick0 {
			moved = true
		}
		if e.after[i]%2 == 1 {
			wasActive = true
		} else {
			wasInactive = true
		}
	}
	switch kind {
	case 0, 1:
		vAssert("tick-wait-closes-iff-tick-moved", verifClosed(ch) == moved)
	case 2:
		vAssert("statectx-cancelled-iff-tick-changed", (sctx.Err() != nil) == (m.Tick(st) != tick0))
	case 3:
		vAssert("when-closes-iff-was-active", verifClosed(ch) == wasActive)
	case 4:
		vAssert("whennot-closes-iff-was-inactive", verifClosed(ch) == wasInactive)
	}
}


// VerifC06TimePair: two WhenTime subscriptions on one machine that share the context (nil or one live
// context) and may name the same states in a different order with their own target ticks; the
// subscriptions may share a channel only if they are the same condition. After up to three single-state
// mutations each channel is closed exactly if its own condition held at subscription or after a transition.
func VerifC06TimePair() {
	s := verifNewScn(2, false, false, false, false, true, false)
	s.inject(false)
	m := s.m
	var ctx context.Context
	if vBool() {
		c, cancel := context.WithCancel(context.Background())
		_ = cancel
		ctx = c
	}
	type tsub struct {
		states  S
		times   Time
		ch      <-chan struct{}
		subTime Time
	}
	var subs [2]*tsub
	for i := range subs {
		w := &tsub{}
		switch vInt(0, 3) {
		case 0:
			w.states = S{"A", "B"}
		case 1:
			w.states = S{"B", "A"}
		case 2:
			w.states = S{"A"}
		default:
			w.states = S{"B"}
		}
		for range w.states {
			w.times = append(w.times, uint64(vInt(0, 3)))
		}
		w.subTime = m.time(nil)
		w.ch = m.WhenTime(w.states, w.times, ctx)
		subs[i] = w
	}
	steps := vParam("steps", 2)
	for k := 0; k < steps; k++ {
		st := s.names[vInt(0, 1)]
		if vBool() {
			m.Add1(st, nil)
		} else {
			m.Remove1(st, nil)
		}
	}
	vReach("timepair")
	for i, w := range subs {
		cond := func(t Time) bool {
			for j, x := range w.states {
				if t[verifIdx(m.stateNames, x)] < w.times[j] {
					return false
				}
			}
			return true
		}
		held := cond(w.subTime)
		for _, e := range s.tr.log {
			if e.kind == "end" && cond(e.after) {
				held = true
			}
		}
		closed := verifClosed(w.ch)
		vLog("sub", uint64(i))
		vAssert("when-time-no-lost-wakeup", !held || closed)
		vAssert("when-time-no-spurious-wakeup", held || !closed)
	}
}
