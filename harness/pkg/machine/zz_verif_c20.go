package machine

import "context"

func init() {
	verifRegister("VerifC20Sets", VerifC20Sets)
	verifRegister("VerifC20Index", VerifC20Index)
	verifRegister("VerifC20Time", VerifC20Time)
	verifRegister("VerifC20Queue", VerifC20Queue)
	verifRegister("VerifC20Parse", VerifC20Parse)
	verifRegister("VerifC20Event", VerifC20Event)
	verifRegister("VerifC20Getters", VerifC20Getters)
	verifRegister("VerifC20When", VerifC20When)
	verifRegister("VerifC20Misc", VerifC20Misc)
}

// VerifC20Misc: DetachHandlers, PoolFork without a pool limit, PanicToErr.
func VerifC20Misc() {
	which := vParam("misc", 0)
	vReach("misc")
	switch which {
	case 0:
		m := New(nil, Schema{"A": {}}, nil)
		id, _ := m.HandlersBindMaps(map[string]HandlerNegotiation{"AEnter": func(e *Event) bool { return true }}, nil)
		err := m.DetachHandlers(id)
		vAssert("detach-ok", err == nil)
	case 1:
		// PoolFork from inside a handler of a machine with no pool limits (zero pools)
		s := verifNewScn(2, false, false, false, true, false, false)
		s.inject(false)
		forked := false
		s.eventHook = func(name string, e *Event) {
			if name == "AState" && !forked {
				forked = true
				s.m.PoolFork(context.Background(), e, func() {})
			}
		}
		s.m.Add1("A", nil)
		vAssert("no-handler-fault", !s.m.IsErr())
	}
}

// verifList builds a list of symbolic length 0..max whose elements are drawn from dom (duplicates
// allowed).
func verifList(dom S, max int) S {
	n := vInt(0, max)
	out := S{}
	for i := 0; i < n; i++ {
		out = append(out, dom[vInt(0, len(dom)-1)])
	}
	return out
}

func verifCount(l S, s string) int {
	c := 0
	for _, x := range l {
		if x == s {
			c++
		}
	}
	return c
}

func verifNoDups(l S) bool {
	for i := range l {
		for j := range l {
			if i < j && l[i] == l[j] {
				return false
			}
		}
	}
	return true
}

// verifIsFilter: got is exactly the elements of a that satisfy keep, in a's order.
func verifIsFilter(got, a S, keep func(string) bool) bool {
	var want S
	for _, x := range a {
		if keep(x) {
			want = append(want, x)
		}
	}
	if len(got) != len(want) {
		return false
	}
	for i := range want {
		if got[i] != want[i] {
			return false
		}
	}
	return true
}

// VerifC20Sets: the state-list algebra.
func VerifC20Sets() {
	dom := S{"A", "B", "C", "D"}
	a := verifSublist(dom)
	b := verifList(dom, 2)
	c := verifList(dom, 2)
	a0 := append(S{}, a...)
	vReach("sets")

	vKnown("c20-srem-skips-first-list", true)
	d1 := a.Delete(b)
	vAssert("delete-removes", verifIsFilter(d1, a, func(x string) bool { return !verifHas(b, x) }))
	d2 := a.Delete(b, c)
	vAssert("delete-many-removes", verifIsFilter(d2, a, func(x string) bool { return !verifHas(b, x) && !verifHas(c, x) }))
	if len(b) > 0 {
		d3 := a.Delete1(b...)
		vAssert("delete1-removes", verifIsFilter(d3, a, func(x string) bool { return !verifHas(b, x) }))
	}
	vAssert("delete-leaves-receiver", S(a).EqualOrder(a0))
}

// VerifC20Index: union / difference / intersection / equality / index round trip.
func VerifC20Index() {
	dom := S{"A", "B", "C", "D"}
	a := verifSublist(dom)
	b := verifList(dom, 3)
	vReach("index")

	u := a.Add(b)
	okU := verifNoDups(u)
	for _, x := range dom {
		if (verifHas(a, x) || verifHas(b, x)) != verifHas(u, x) {
			okU = false
		}
	}
	vAssert("add-is-union-without-duplicates", okU)
	if len(b) > 0 {
		u1 := a.Add1(b...)
		ok1 := verifNoDups(u1)
		for _, x := range dom {
			if (verifHas(a, x) || verifHas(b, x)) != verifHas(u1, x) {
				ok1 = false
			}
		}
		vAssert("add1-is-union-without-duplicates", ok1)
	}
	su := SAdd(a, b)
	okS := verifNoDups(su)
	for _, x := range dom {
		if (verifHas(a, x) || verifHas(b, x)) != verifHas(su, x) {
			okS = false
		}
	}
	vAssert("sadd-is-union-without-duplicates", okS)

	vAssert("sub-is-difference", verifIsFilter(a.Sub(b), a, func(x string) bool { return !verifHas(b, x) }))
	vAssert("shared-is-intersection", verifIsFilter(a.Shared(b), a, func(x string) bool { return verifHas(b, x) }))
	same := true
	for _, x := range dom {
		if verifHas(a, x) != verifHas(b, x) {
			same = false
		}
	}
	vAssert("equal-is-set-equality", a.Equal(b) == same)
	ident := len(a) == len(b)
	if ident {
		for i := range a {
			if a[i] != b[i] {
				ident = false
			}
		}
	}
	vAssert("equal-order-is-identity", a.EqualOrder(b) == ident)
	for _, x := range dom {
		vAssert("has-is-membership", a.Has(x) == verifHas(a, x))
	}
	// index round trip for lists of known names
	idx := dom.Index(a)
	back := dom.FilterIndex(idx)
	vAssert("index-round-trip", back.EqualOrder(a))
	idx2 := StatesToIndex(dom, b)
	vAssert("states-to-index-round-trip", IndexToStates(dom, idx2).EqualOrder(b))
}

// VerifC20Time: Time / TimeIndex algebra for every index in -1..len-1.
func VerifC20Time() {
	n := vInt(0, 3)
	t := make(Time, n)
	t2 := make(Time, n)
	for i := range t {
		t[i] = vU64()
		t2[i] = vU64()
	}
	vReach("time")
	var sum uint64
	for _, x := range t {
		sum += x
	}
	vAssert("sum-all", t.Sum(nil) == sum)
	add := t.Add(t2)
	diff := add.DiffSince(t2)
	okAdd, okDiff := len(add) == n, len(diff) == n
	for i := range t {
		if add[i] != t[i]+t2[i] {
			okAdd = false
		}
		if diff[i] != t[i] {
			okDiff = false
		}
	}
	vAssert("add-is-pointwise", okAdd)
	vAssert("diff-since-inverts-add", okDiff)
	idx := vInt(-1, 2)
	vAssume(idx < n)
	act := idx >= 0 && t[idx]%2 == 1
	vAssert("is1-is-parity", t.Is1(idx) == act)
	if idx >= 0 {
		vAssert("not1-is-parity", t.Not1(idx) == !act)
		vAssert("tick-is-value", t.Tick(idx) == t[idx])
		vAssert("is-list", t.Is([]int{idx}) == act)
		vAssert("any1", t.Any1(idx) == act)
		inc := t.Increment(idx)
		vAssert("increment", inc[idx] == t[idx]+1 && t.Tick(idx) == inc[idx]-1)
		f := t.Filter([]int{idx})
		vAssert("filter", len(f) == 1 && f[0] == t[idx])
		vAssert("sum-selected", t.Sum([]int{idx}) == t[idx])
	}
	vAssert("not-with-missing", t.Not([]int{-1}))
	vAssert("is-empty-false", !t.Is(nil))
	vAssert("not-empty-true", t.Not(nil))
	as := t.ActiveStates(nil)
	okAct := true
	for i := range t {
		in := false
		for _, j := range as {
			if j == i {
				in = true
			}
		}
		if in != (t[i]%2 == 1) {
			okAct = false
		}
	}
	vAssert("active-states-are-odd-ticks", okAct)
	vAssert("equal-self", t.Equal(true, t) && t.Equal(false, t))
	nt := NewTime(t, as)
	okNT := len(nt) == n
	for i := range nt {
		if (nt[i] == 1) != (t[i]%2 == 1) {
			okNT = false
		}
	}
	vAssert("newtime-marks-active", okNT)
	// TimeIndex
	names := S{"A", "B", "C"}[:n]
	ti := t.ToIndex(names)
	for i, name := range names {
		vAssert("timeindex-is1", ti.Is1(name) == (t[i]%2 == 1))
		vAssert("timeindex-not1", ti.Not1(name) == (t[i]%2 == 0))
	}
	vAssert("timeindex-name-out-of-range", ti.StateName(3) == "")
}

// VerifC20Queue: queue queries on queues of 0..2 mutations for every Position.
func VerifC20Queue() {
	m := New(nil, Schema{"A": {}, "B": {}}, nil)
	nq := vInt(0, 2)
	// mutations queued while another caller holds the queue
	m.queueProcessing.Store(true)
	for i := 0; i < nq; i++ {
		st := S{"A", "B"}[vInt(0, 1)]
		if vBool() {
			m.Add1(st, nil)
		} else {
			m.Remove1(st, A{"x": 1})
		}
	}
	vReach("queue")
	pos := Position(vInt(0, 2))
	st := S{"A", "B"}[vInt(0, 1)]
	// preconditions: none documented for an empty queue
	vKnown("c20-isqueued-first-on-empty-queue", pos == PositionFirst && nq == 0)
	found, idx, _ := m.IsQueued(MutationAdd, S{st}, false, false, 0, false, pos)
	if found {
		vAssert("isqueued-index-in-range", int(idx) < nq)
	} else {
		vAssert("isqueued-notfound-zero", idx == 0)
	}
	wb := m.WillBe1(st, pos)
	wr := m.WillBeRemoved1(st, pos)
	vAssert("willbe-needs-queue", !(wb || wr) || nq > 0)
	vAssert("queued-above-zero-needs-queue", !m.IsQueuedAbove(1, MutationAdd, S{st}, false, false, 0) || nq > 0)
	vAssert("queue-len", int(m.QueueLen()) == len(m.queue) && len(m.queue) <= nq)
}

// VerifC20Parse: ParseStates keeps known names only, no duplicates.
func VerifC20Parse() {
	m := New(nil, Schema{"A": {}, "B": {}, "C": {}}, nil)
	in := verifList(S{"A", "B", "C", "Zed"}, 3)
	vReach("parse")
	out := m.ParseStates(in)
	ok := verifNoDups(out)
	for _, x := range out {
		if x == "Zed" {
			ok = false
		}
	}
	for _, x := range (S{"A", "B", "C"}) {
		if verifHas(in, x) != verifHas(out, x) {
			ok = false
		}
	}
	vKnown("c20-parsestates-keeps-unknown-with-duplicates", !verifNoDups(in) && verifHas(in, "Zed"))
	vAssert("parse-states-known-unique", ok)
	vAssert("has1", m.Has1("A") && !m.Has1("Zed"))
}

// VerifC20Event: events without a machine, typed helpers.
func VerifC20Event() {
	vReach("event")
	e := &Event{Name: "FooState", MachineId: "m1", TransitionId: "t1"}
	vKnown("c20-event-export-without-machine", true)
	ex := e.Export()
	vAssert("export-copies", ex.Name == "FooState" && ex.MachineId == "m1" && ex.TransitionId == "t1")
	cl := e.Clone()
	vAssert("clone-copies", cl.Name == "FooState")
}

// VerifC20Getters: values documented as copies are the caller's to modify.
func VerifC20Getters() {
	s := verifNewScn(2, false, false, false, false, false, false)
	s.inject(true)
	m := s.m
	vReach("getters")
	as := m.ActiveStates(nil)
	for i := range as {
		as[i] = "Zed"
	}
	vAssert("active-states-is-copy", verifSameSet(m.activeStates, s.pre))
	tm := m.Time(nil)
	for i := range tm {
		tm[i] += 7
	}
	vAssert("time-is-copy", verifSameTime(m.time(nil), s.preT))
	ck := m.Clock(nil)
	for k := range ck {
		ck[k] += 3
	}
	vAssert("clock-is-copy", verifSameTime(m.time(nil), s.preT))
	sc := m.Schema()
	st := sc["A"]
	st.Multi = !st.Multi
	st.Require = append(st.Require, "B")
	sc["A"] = st
	delete(sc, "B")
	_, hasB := m.schema["B"]
	vAssert("schema-is-copy", hasB && m.schema["A"].Multi == s.schema["A"].Multi && len(m.schema["A"].Require) == len(s.schema["A"].Require))
	names := m.StateNames()
	n0 := len(names)
	q := m.Queue()
	q = append(q, &Mutation{})
	vAssert("queue-is-copy", len(m.queue) == 0 && len(q) == 1 && n0 == len(m.stateNames))
	tr := m.Tracers()
	tr = append(tr, &TracerNoOp{})
	vAssert("tracers-is-copy", len(m.tracers) == 0 && len(tr) == 1)
	// deep copies: writing into the relation / tag lists of the returned schema, and into Tags()
	m2 := New(nil, Schema{"A": {Require: S{"B"}, Tags: []string{"t1", "t2"}}, "B": {Add: S{"C"}, After: S{"C"}, Tags: []string{"x"}},
		"C": {Remove: S{"A"}}}, &Opts{Tags: []string{"ta", "tb"}})
	sc2 := m2.Schema()
	sc2["A"].Tags[0] = "zed"
	sc2["A"].Require[0] = "C"
	sc2["B"].Add[0] = "A"
	sc2["B"].After[0] = "A"
	sc2["B"].Tags[0] = "zed"
	sc2["C"].Remove[0] = "B"
	in := m2.schema
	vAssert("schema-lists-are-copies", in["A"].Tags[0] == "t1" && in["A"].Require[0] == "B" && in["B"].Add[0] == "C" &&
		in["B"].After[0] == "C" && in["B"].Tags[0] == "x" && in["C"].Remove[0] == "A")
	cl := in["A"].Clone()
	cl.Tags[1] = "zed"
	cl.Require[0] = "C"
	vAssert("state-clone-is-deep", in["A"].Tags[1] == "t2" && in["A"].Require[0] == "B")
	tg := m2.Tags()
	if len(tg) > 0 {
		tg[0] = "zed"
	}
	tg2 := m2.Tags()
	vAssert("tags-is-copy", len(tg2) == 2 && tg2[0] == "ta")
}

// VerifC20When: every When* with nil and live contexts on a fresh subscription manager.
func VerifC20When() {
	m := New(nil, Schema{"A": {}, "B": {}}, nil)
	var ctx context.Context
	live := vBool()
	if live {
		c, cancel := context.WithCancel(context.Background())
		defer cancel()
		ctx = c
	}
	vReach("when")
	which := vParam("when", 0)
	switch which {
	case 0:
		ch := m.When(S{"A"}, ctx)
		vAssert("when-open", ch != nil)
	case 1:
		ch := m.WhenNot(S{"A"}, ctx)
		vAssert("whennot-closed-when-inactive", ch != nil)
	case 2:
		ch := m.WhenTime(S{"A"}, Time{3}, ctx)
		vAssert("whentime-open", ch != nil)
	case 3:
		ch := m.WhenTicks("A", 2, ctx)
		vAssert("whenticks-open", ch != nil)
	case 4:
		vKnown("c20-whenquery-with-ctx-nil-map", live)
		ch := m.WhenQuery(func(c Clock) bool { return c["A"] > 0 }, ctx)
		vAssert("whenquery-open", ch != nil)
		// a later transition must not panic either
		m.Add1("A", nil)
	case 5:
		ch := m.WhenArgs("A", A{"x": 1}, ctx)
		vAssert("whenargs-open", ch != nil)
	case 6:
		ch := m.WhenQueueEnds()
		vAssert("whenqueueends", ch != nil)
	case 7:
		ch := m.WhenQueue(Result(5))
		vAssert("whenqueue", ch != nil)
	case 8:
		// bound to the current tick of the state (C06): alive until that tick changes
		c2 := m.NewStateCtx("A")
		vAssert("statectx-alive-while-tick-unchanged", c2.Err() == nil)
		m.Add1("A", nil)
		vAssert("statectx-cancelled-on-tick-change", c2.Err() != nil)
	}
	res := m.Add1("B", nil)
	vAssert("machine-still-works", res == Executed)
}
