package machine

func init() {
	verifRegister("VerifC05Order", VerifC05Order)
	verifRegister("VerifC01Clock", VerifC01Clock)
	verifRegister("VerifC14Tracer", VerifC14Tracer)
	verifRegister("VerifC07Auto", VerifC07Auto)
}

// handler name classification (state names are single letters A..E)
// rank: 0 Exit, 1 Enter, 2 self / state-state, 3 AnyEnter, 4 End / State, 5 AnyState
func verifRank(name string) int {
	switch {
	case name == "AnyEnter":
		return 3
	case name == "AnyState":
		return 5
	case len(name) == 2:
		return 2
	case name[1:] == "Exit":
		return 0
	case name[1:] == "Enter":
		return 1
	}
	return 4
}

func verifJoin(l []string) string {
	out := ""
	for _, x := range l {
		out += x + ","
	}
	return out
}

func verifIdx(names S, s string) int {
	for i, x := range names {
		if x == s {
			return i
		}
	}
	return -1
}

// VerifC05Order: phase order, visibility, veto and exactly-once rules of the handler lifecycle.
func VerifC05Order() {
	s := verifNewScn(vParam("n", 2), vParam("auto", 0) == 1, vParam("multi", 0) == 1, vParam("after", 0) == 1, true, true, vParam("novetos", 0) == 0)
	s.inject(false)
	kind, called, res := s.mutate()
	post := s.m.ActiveStates(nil)
	postT := s.m.time(nil)
	// only the mutation's own transition (an auto mutation may follow in the same drain)
	for _, e := range s.tr.log {
		if e.kind == "end" {
			postT = e.after
			post = e.active
			s.calls = s.calls[:e.ncalls]
			break
		}
	}
	vReach("order")
	vLog("res", uint64(res))
	vLog("ncalls", uint64(len(s.calls)))

	// phase order
	ordered := true
	for i := 1; i < len(s.calls); i++ {
		if verifRank(s.calls[i].name) < verifRank(s.calls[i-1].name) {
			ordered = false
		}
	}
	vAssert("phase-order", ordered)

	// visibility
	negSeesPre, finSeesPost := true, true
	vetoed := -1
	for i, c := range s.calls {
		if verifRank(c.name) <= 3 {
			if !verifSameSet(c.active, s.pre) || !verifSameTime(c.time, s.preT) {
				negSeesPre = false
			}
			if s.veto[c.name] && vetoed < 0 {
				vetoed = i
			}
		} else {
			if !verifSameSet(c.active, post) || !verifSameTime(c.time, postT) {
				finSeesPost = false
			}
		}
	}
	vAssert("negotiation-sees-pre-state", negSeesPre)
	vAssert("finals-see-target-applied", finSeesPost)

	// veto stops everything
	if vetoed >= 0 {
		vAssert("veto-cancels", res == Canceled)
		vAssert("veto-is-last-call", vetoed == len(s.calls)-1)
		vAssert("veto-nothing-applied", verifSameSet(post, s.pre) && verifSameTime(postT, s.preT))
	}
	// finals only for accepted transitions
	nFinal := 0
	for _, c := range s.calls {
		if verifRank(c.name) >= 4 {
			nFinal++
		}
	}
	if res == Canceled {
		vAssert("no-finals-when-canceled", nFinal == 0)
	}
	// exactly one End per deactivated, one State per activated (Multi re-entry when called), per binding
	if res == Executed {
		exact := true
		for _, st := range s.names {
			was, is := verifHas(s.pre, st), verifHas(post, st)
			nState, nEnd := 0, 0
			for _, c := range s.calls {
				if c.name == st+"State" {
					nState++
				}
				if c.name == st+"End" {
					nEnd++
				}
			}
			wantState, wantEnd := 0, 0
			if !was && is {
				wantState = 1
			}
			if was && !is {
				wantEnd = 1
			}
			if was && is && s.schema[st].Multi && kind != 1 && verifHas(called, st) {
				wantState = 1
			}
			if nState != wantState || nEnd != wantEnd {
				exact = false
			}
		}
		vAssert("finals-exactly-once-per-change", exact)
	}
	// order among Enter handlers / among Exit handlers: after the states listed in After and Require.
	// The resolver documents that a Require cycle anywhere leaves the states unsorted ("cycle, keep
	// unsorted"), so the Require part is only asserted for acyclic Require graphs (weaker reading).
	reach := map[string]map[string]bool{}
	for _, x := range s.names {
		reach[x] = map[string]bool{}
		for _, y := range s.schema[x].Require {
			reach[x][y] = true
		}
	}
	for range s.names {
		for _, x := range s.names {
			for _, y := range s.names {
				if reach[x][y] {
					for _, z := range s.names {
						if reach[y][z] {
							reach[x][z] = true
						}
					}
				}
			}
		}
	}
	reqCycle := false
	for _, x := range s.names {
		if reach[x][x] {
			reqCycle = true
		}
	}
	// ord[x][y]: x has to come after y through some chain of After / Require entries; a pair that is ordered both
	// ways (a cycle mixing the two relations, of any length) cannot be satisfied by any order and is not asserted
	ord := map[string]map[string]bool{}
	for _, x := range s.names {
		ord[x] = map[string]bool{}
		for _, y := range s.schema[x].Require {
			ord[x][y] = true
		}
		for _, y := range s.schema[x].After {
			ord[x][y] = true
		}
	}
	for range s.names {
		for _, x := range s.names {
			for _, y := range s.names {
				if ord[x][y] {
					for _, z := range s.names {
						if ord[y][z] {
							ord[x][z] = true
						}
					}
				}
			}
		}
	}
	relOK := true
	nonAdjacent := false // a violated After pair with another handler of the same phase between the two
	for i := range s.calls {
		for j := range s.calls {
			if i >= j {
				continue
			}
			a, b := s.calls[i].name, s.calls[j].name // a ran before b
			ra, rb := verifRank(a), verifRank(b)
			if ra != rb || ra > 1 {
				continue
			}
			x, y := a[:1], b[:1]
			// x ran first: violated when x must come after y
			if verifHas(s.schema[x].After, y) || (!reqCycle && verifHas(s.schema[x].Require, y)) {
				// unless y must also come after x (cycle: no order can satisfy both)
				if !ord[y][x] {
					relOK = false
					if verifHas(s.schema[x].After, y) {
						// position in the sorted target list (= the active list after / before the transition)
						list := post
						if ra == 0 {
							list = s.pre
						}
						px, py := verifIdx(list, x), verifIdx(list, y)
						if px >= 0 && py >= 0 && (px-py > 1 || py-px > 1) {
							nonAdjacent = true
						}
						if (px < 0 || py < 0) && len(s.names) >= 3 {
							// canceled transition: the sorted target list is not observable
							nonAdjacent = true
						}
						// the list SortStates actually sorts (t.Enters / t.Exits in their initial order) is not the
						// active list: with three or more states in the same phase the pair may be non-adjacent there
						same := 0
						for _, c := range s.calls {
							if verifRank(c.name) == ra {
								same++
							}
						}
						if same >= 3 {
							nonAdjacent = true
						}
					}
				}
			}
		}
	}
	if !vSymbolic() {
		// native replay: show the handler sequence
		var seq []string
		for _, c := range s.calls {
			seq = append(seq, c.name)
		}
		println("VERIF-CALLS", len(seq), verifJoin(seq), "pre", verifJoin(s.pre), "called", verifJoin(called), "post", verifJoin(post))
		for _, n := range s.names {
			println("VERIF-DUMP state", n, "require", verifJoin(s.schema[n].Require), "after", verifJoin(s.schema[n].After))
		}
	}
	vKnown("c05-after-not-transitive", nonAdjacent)
	vAssert("after-require-order", relOK)
}

// VerifC01Clock: tick parity is activity, ticks only grow by the documented step, all views agree.
func VerifC01Clock() {
	s := verifNewScn(vParam("n", 2), false, vParam("multi", 1) == 1, false, vParam("handlers", 0) == 1, true, true)
	s.inject(true)
	isCheck := vParam("check", 0) == 1
	var kind int
	var called S
	var res Result
	if isCheck {
		kind = vInt(0, 1)
		called = verifSublist(s.names)
		vAssume(len(called) > 0)
		if kind == 0 {
			res = s.m.CanAdd(called, nil)
		} else {
			res = s.m.CanRemove(called, nil)
		}
	} else {
		kind, called, res = s.mutate()
	}
	m := s.m
	post := m.ActiveStates(nil)
	postT := m.Time(nil)
	clock := m.Clock(nil)
	vReach("clock")
	vLog("res", uint64(res))

	parity, views, mono, step := true, true, true, true
	for i, name := range m.stateNames {
		tk := m.Tick(name)
		act := verifHas(post, name)
		if (tk%2 == 1) != act {
			parity = false
		}
		if m.Is1(name) != act || m.Not1(name) == act || m.Any1(name) != act || postT[i] != tk || clock[name] != tk ||
			IsActiveTick(tk) != act || m.IsClock(Clock{name: tk}) != true {
			views = false
		}
		before := s.preT[i]
		if tk < before {
			mono = false
		}
		d := tk - before
		was := verifHas(s.pre, name)
		var want uint64
		switch {
		case was != act:
			want = 1
		case was && act && m.schema[name].Multi && !isCheck && kind != 1 && verifHas(called, name) && res == Executed:
			want = 2
		}
		if d != want {
			step = false
		}
	}
	vAssert("parity-is-activity", parity)
	vAssert("views-agree", views)
	vAssert("ticks-never-decrease", mono)
	vAssert("tick-step-rule", step)
	if res == Canceled || isCheck {
		vAssert("canceled-or-check-moves-nothing", verifSameTime(postT, s.preT) && verifSameSet(post, s.pre))
	}
	// the transition's own before / after times (first traced transition)
	for _, e := range s.tr.log {
		if e.kind == "end" {
			vAssert("tx-time-before", verifSameTime(e.before, s.preT))
			if !e.mut.IsAuto {
				// the first transition of the drain: nothing else ran before its End
				vAssert("tx-time-after-is-machine-time", verifSameTime(e.after, e.mach))
			}
			break
		}
	}
}

// VerifC14Tracer: tracer call protocol and reported times over one drain of the queue.
func VerifC14Tracer() {
	s := verifNewScn(vParam("n", 2), vParam("auto", 1) == 1, vParam("multi", 0) == 1, false, vParam("handlers", 1) == 1, true, true)
	s.inject(true)
	_, _, res := s.mutate()
	final := s.m.time(nil)
	log := s.tr.log
	vReach("tracer")
	vLog("res", uint64(res))
	vLog("nlog", uint64(len(log)))

	// grammar: (queued)* then per transition: init start [finals] end ; queueend last
	proto, finalsRule, times, chain, canceledSame := true, true, true, true, true
	state := 0 // 0 idle, 1 after init, 2 after start, 3 after finals
	var cur *Mutation
	var lastAfter Time
	nEnd, nQueued, nQueueEnd := 0, 0, 0
	for _, e := range log {
		switch e.kind {
		case "queued":
			nQueued++
		case "queueend":
			nQueueEnd++
			if state != 0 {
				proto = false
			}
		case "init":
			if state != 0 {
				proto = false
			}
			state, cur = 1, e.mut
		case "start":
			if state != 1 || e.mut != cur {
				proto = false
			}
			state = 2
		case "finals":
			if state != 2 || e.mut != cur {
				proto = false
			}
			state = 3
		case "end":
			if (state != 2 && state != 3) || e.mut != cur {
				proto = false
			}
			// finals iff the apply step ran: accepted, not a check
			if (state == 3) != (e.acc && !e.mut.IsCheck) {
				finalsRule = false
			}
			if !verifSameTime(e.after, e.mach) {
				times = false
			}
			if lastAfter != nil && !verifSameTime(e.before, lastAfter) {
				chain = false
			}
			if !e.acc && !verifSameTime(e.after, e.before) {
				canceledSame = false
			}
			lastAfter = e.after
			state = 0
			nEnd++
		}
	}
	vAssert("init-start-end-once-in-order", proto && state == 0)
	vAssert("finals-iff-applied", finalsRule)
	vAssert("time-after-is-machine-time", times)
	vAssert("time-before-chains", chain)
	vAssert("canceled-reports-no-change", canceledSame)
	if nEnd > 0 {
		vAssert("last-report-is-final-time", verifSameTime(lastAfter, final))
		vAssert("queue-end-once-per-drain", nQueueEnd == 1)
	}
	vAssert("queued-once-per-processed-mutation", nQueued == nEnd)
}

// VerifC07Auto: the auto mutation after an accepted, state-changing mutation.
func VerifC07Auto() {
	s := verifNewScn(vParam("n", 2), true, false, false, true, true, true)
	// AnyEnter legitimately cancels a whole (auto) mutation: pinned to "no veto" (weaker reading)
	s.veto["AnyEnter"] = false
	s.inject(false)
	_, _, res := s.mutate()
	m := s.m
	post := m.ActiveStates(nil)
	vReach("auto")
	vLog("res", uint64(res))

	var ends []verifTrace
	for _, e := range s.tr.log {
		if e.kind == "end" {
			ends = append(ends, e)
		}
	}
	vAssert("at-most-two-transitions", len(ends) <= 2)
	if len(ends) == 0 {
		return
	}
	first := ends[0]
	changed := !verifSameTime(first.before, first.after)
	// expected auto set, computed on the state right after the first transition
	var mid S
	for i, name := range m.stateNames {
		if first.after[i]%2 == 1 {
			mid = append(mid, name)
		}
	}
	var want S
	for _, name := range s.names {
		if !s.schema[name].Auto || verifHas(mid, name) {
			continue
		}
		blocked := false
		for _, a := range mid {
			if verifHas(s.schema[a].Remove, name) {
				blocked = true
			}
		}
		if !blocked {
			want = append(want, name)
		}
	}
	expectAuto := first.acc && changed && !first.mut.IsAuto && len(want) > 0
	if expectAuto {
		vAssert("auto-mutation-follows", len(ends) == 2 && ends[1].mut.IsAuto)
		if len(ends) == 2 {
			got := IndexToStates(m.stateNames, ends[1].mut.Called)
			vAssert("auto-calls-exactly-unblocked-inactive-auto", verifSameSet(got, want))
			// each called auto state ends active unless its own handlers vetoed it or relations reject it
			just := true
			for _, a := range got {
				if verifHas(post, a) {
					continue
				}
				j := s.veto[a+"Enter"] || s.veto[a+a]
				for _, b := range mid {
					if b != a && s.veto[b+a] {
						j = true
					}
				}
				for _, r := range s.schema[a].Require {
					if !verifHas(post, r) {
						j = true
					}
				}
				for _, p := range post {
					if verifHas(s.schema[p].Remove, a) {
						j = true
					}
				}
				// exit vetoes of states the auto target would remove also reject it
				for _, b := range mid {
					if verifHas(s.schema[a].Remove, b) && s.veto[b+"Exit"] {
						j = true
					}
				}
				// relations resolved before the handlers ran: a called state that Removes it counts as a
				// relation-based rejection even if that state was itself vetoed afterwards (weaker reading)
				cl := append(S{}, got...)
				for changed := true; changed; {
					changed = false
					for _, p := range cl {
						for _, q := range s.schema[p].Add {
							if !verifHas(cl, q) {
								cl = append(cl, q)
								changed = true
							}
						}
					}
				}
				for _, p := range cl {
					if p != a && verifHas(s.schema[p].Remove, a) {
						j = true
					}
					// a state in the closure that cannot be satisfied drags the auto state down with it
					for _, r := range s.schema[p].Require {
						if !verifHas(post, r) && verifHas(s.schema[a].Add, p) {
							j = true
						}
					}
				}
				// a vetoing handler of a state that is not itself a called auto state (implied through
				// an Add relation, or exiting) cancels the whole mutation as in any other mutation
				for _, c := range s.calls {
					if !s.veto[c.name] {
						continue
					}
					subj := c.name[:1]
					if len(c.name) == 2 {
						subj = c.name[1:]
					}
					if !verifHas(got, subj) {
						j = true
					}
					// ... or of a state this auto state pulls in through its own Add relations (its relations)
					own := S{a}
					for grown := true; grown; {
						grown = false
						for _, p := range own {
							for _, q := range s.schema[p].Add {
								if !verifHas(own, q) {
									own = append(own, q)
									grown = true
								}
							}
						}
					}
					if subj != a && verifHas(own, subj) {
						j = true
					}
				}
				// relations inside its own Add closure defeat it: a pulled-in state Removes what the closure Requires
				ownc := S{a}
				for grown := true; grown; {
					grown = false
					for _, p := range ownc {
						for _, q := range s.schema[p].Add {
							if !verifHas(ownc, q) {
								ownc = append(ownc, q)
								grown = true
							}
						}
					}
				}
				for _, p := range ownc {
					for _, q := range ownc {
						for _, r := range s.schema[q].Require {
							if verifHas(s.schema[p].Remove, r) {
								j = true
							}
						}
					}
				}
				if !j {
					just = false
					if !vSymbolic() {
						vDump("unjustified auto state "+a, s)
					}
				}
			}
			vAssert("rejected-auto-state-is-justified", just)
			// the converse, one by one: a called auto state whose own negotiation handler ran and vetoed it is not
			// active afterwards (unless another state's Add relation can pull it back in: not asserted then) ...
			vetoedStays := true
			for _, a := range got {
				pulled := false
				for _, n := range s.names {
					if n != a && verifHas(s.schema[n].Add, a) {
						pulled = true
					}
				}
				if pulled || !verifHas(post, a) {
					continue
				}
				for _, c := range s.calls {
					if !s.veto[c.name] {
						continue
					}
					if c.name == a+"Enter" || c.name == a+a || (len(c.name) == 2 && c.name[1:] == a && c.name[:1] != a) {
						vetoedStays = false
						if !vSymbolic() {
							vDump("vetoed auto state active "+a+" by "+c.name, s)
						}
					}
				}
			}
			vAssert("vetoed-auto-state-not-active", vetoedStays)
			// ... and rejecting one never costs a bystander: a state active before the auto mutation is still active
			// unless a called auto state (or what it Adds) Removes it, or one of its Require states went away
			bystanders := true
			cl2 := append(S{}, got...)
			for grown := true; grown; {
				grown = false
				for _, p := range cl2 {
					for _, q := range s.schema[p].Add {
						if !verifHas(cl2, q) {
							cl2 = append(cl2, q)
							grown = true
						}
					}
				}
			}
			for _, b := range mid {
				if verifHas(post, b) {
					continue
				}
				ok := false
				for _, p := range cl2 {
					if verifHas(s.schema[p].Remove, b) {
						ok = true
					}
				}
				for _, r := range s.schema[b].Require {
					if !verifHas(post, r) {
						ok = true
					}
				}
				if !ok {
					bystanders = false
					if !vSymbolic() {
						vDump("bystander deactivated by the auto mutation "+b, s)
					}
				}
			}
			vAssert("auto-mutation-spares-bystanders", bystanders)
		}
	} else {
		vAssert("no-auto-mutation-otherwise", len(ends) == 1)
	}
}

// vDump prints a scenario natively (replay diagnostics only).
func vDump(what string, s *verifScn) {
	println("VERIF-DUMP", what)
	for _, n := range s.names {
		st := s.schema[n]
		println("VERIF-DUMP  state", n, "auto", st.Auto, "multi", st.Multi, "require", verifJoin(st.Require), "add", verifJoin(st.Add), "remove", verifJoin(st.Remove), "after", verifJoin(st.After))
	}
	println("VERIF-DUMP  pre", verifJoin(s.pre), "post", verifJoin(s.m.ActiveStates(nil)))
	for k, v := range s.veto {
		if v {
			println("VERIF-DUMP  veto", k)
		}
	}
	for _, c := range s.calls {
		println("VERIF-DUMP  call", c.name, "active", verifJoin(c.active))
	}
	for _, e := range s.tr.log {
		if e.kind == "end" {
			println("VERIF-DUMP  end called", verifJoin(IndexToStates(s.m.stateNames, e.mut.Called)), "auto", e.mut.IsAuto, "acc", e.acc)
		}
	}
}
