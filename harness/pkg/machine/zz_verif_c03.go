package machine

import "time"

func init() {
	verifRegister("VerifC03Step", VerifC03Step)
	verifRegister("VerifC03Check", VerifC03Check)
	verifRegister("VerifC03Early", VerifC03Early)
}

func verifNoTopology2(g *graph) ([]string, error) { return nil, nil }

// VerifC03Step: all-or-nothing and truthful Result for one mutation on an idle machine with
// handlers whose negotiation results are a symbolic veto table.
func VerifC03Step() {
	s := verifNewScn(vParam("n", 2), vParam("auto", 0) == 1, vParam("multi", 1) == 1, false, true, true, true)
	s.inject(true)
	kind, called, res := s.mutate()
	// the state right after the mutation's own transition (an auto mutation may follow in the same drain)
	post := s.m.ActiveStates(nil)
	postT := s.m.time(nil)
	for _, e := range s.tr.log {
		if e.kind == "end" {
			postT = e.after
			post = nil
			for i, name := range s.m.stateNames {
				if postT[i]%2 == 1 {
					post = append(post, name)
				}
			}
			break
		}
	}
	vReach("step")
	vLog("res", uint64(res))
	vAssert("result-is-final", res == Executed || res == Canceled)
	if res == Canceled {
		vAssert("canceled-active-unchanged", verifSameSet(post, s.pre))
		vAssert("canceled-ticks-unchanged", verifSameTime(postT, s.preT))
	}
	if res == Executed {
		switch kind {
		case 0:
			all := true
			for _, c := range called {
				if !verifHas(post, c) {
					all = false
				}
			}
			vAssert("executed-add-all-active", all)
		case 1:
			none := true
			for _, c := range called {
				if verifHas(post, c) {
					none = false
				}
			}
			vAssert("executed-remove-none-active", none)
		default:
			all := true
			for _, c := range called {
				if !verifHas(post, c) {
					all = false
				}
			}
			vAssert("executed-set-called-active", all)
		}
	}
	// parity = activity afterwards
	par := true
	for i, name := range s.m.stateNames {
		if (postT[i]%2 == 1) != verifHas(post, name) {
			par = false
		}
	}
	vAssert("parity-is-activity", par)
}

// VerifC03Check: CanAdd / CanRemove change nothing and, for non-Multi states and handlers that
// ignore the check flag, answer what the same mutation returns when issued next.
func VerifC03Check() {
	s := verifNewScn(vParam("n", 2), false, false, false, true, false, true)
	s.inject(true)
	q0 := s.m.queueTick
	isAdd := vBool()
	called := verifSublist(s.names)
	vAssume(len(called) > 0)
	var chk Result
	if isAdd {
		chk = s.m.CanAdd(called, nil)
	} else {
		chk = s.m.CanRemove(called, nil)
	}
	vReach("check")
	vAssert("check-active-unchanged", verifSameSet(s.m.ActiveStates(nil), s.pre))
	vAssert("check-ticks-unchanged", verifSameTime(s.m.time(nil), s.preT))
	vAssert("check-queue-tick-unchanged", s.m.queueTick == q0)
	var res Result
	if isAdd {
		res = s.m.Add(called, nil)
	} else {
		res = s.m.Remove(called, nil)
	}
	vLog("chk", uint64(chk))
	vLog("res", uint64(res))
	vAssert("check-predicts-result", (chk == Executed) == (res == Executed))
}

// VerifC03Early: disposed / backing-off / over-the-limit machines cancel without effect.
func VerifC03Early() {
	s := verifNewScn(vParam("n", 2), false, false, false, false, false, false)
	s.inject(false)
	which := vParam("early", 0)
	switch which {
	case 0:
		s.m.disposing.Store(true)
	case 1:
		// queue limit reached: the queue length counter is what the entry points consult
		lim := vU16()
		s.m.QueueLimit = lim
		ql := vU16()
		vAssume(ql >= lim)
		s.m.queueLen.Store(uint32(ql))
	case 3:
		// queue full, Exception called: only one pending Exception is let in
		s.m.QueueLimit = 1
		s.m.queueProcessing.Store(true) // somebody else is draining: mutations only get queued
		s.m.queueLen.Store(1)
		if vBool() {
			verifInject(s.m, append(append(S{}, s.pre...), StateException), func(int) uint64 { return 0 })
		}
		wasErr := s.m.IsErr()
		q0 := len(s.m.queue)
		extra := verifSublist(s.names)
		r := s.m.Add(append(S{StateException}, extra...), nil)
		vReach("early")
		if wasErr {
			vAssert("full-queue-second-exception-canceled", r == Canceled && len(s.m.queue) == q0)
		} else {
			vAssert("full-queue-first-exception-queued", r != Canceled && len(s.m.queue) == q0+1)
		}
		return
	case 2:
		// a handler deadline was just hit: the machine is backing off
		now := time.Now()
		s.m.LastHandlerDeadline.Store(&now)
	}
	backoff := which == 2 && s.m.Backoff()
	kind, called, res := s.mutate()
	_ = called
	vReach("early")
	if which == 2 {
		if backoff {
			vKnown("c03-set-ignores-backoff", kind == 2)
			vAssert("backoff-canceled", res == Canceled)
			vAssert("backoff-active-unchanged", verifSameSet(s.m.activeStates, s.pre))
		}
		return
	}
	if which == 1 {
		// one pending Exception is exempt: only when Exception itself is called
		vAssert("over-limit-canceled", res == Canceled)
	} else {
		vAssert("disposed-canceled", res == Canceled)
	}
	s.m.disposing.Store(false)
	vAssert("early-active-unchanged", verifSameSet(s.m.activeStates, s.pre))
	vAssert("early-ticks-unchanged", verifSameTime(s.m.time(nil), s.preT))
}
