package rpc

import (
	am "github.com/pancsta/asyncmachine-go/pkg/machine"
	"github.com/pancsta/asyncmachine-go/pkg/rpc/states"
)

func init() {
	verifRegister("VerifC09Message", VerifC09Message)
}

// recorded by the overrides below
var verifApplied struct {
	n     int
	time  am.Time
	qTick uint64
	mTick uint32
}
var verifSyncs int

// verifUpdateClock replaces NetworkMachine.updateClock: the mirror's clock is applied and recorded,
// the net machine's own handler / subscription processing is cut (C06/C05 cover that code in pkg/machine).
func verifUpdateClock(m *NetworkMachine, now am.Time, qTick uint64, machTick uint32) {
	verifApplied.n++
	verifApplied.time = now
	verifApplied.qTick = qTick
	verifApplied.mTick = machTick
	m.machTime = now
	m.queueTick = qTick
	m.machTick = machTick
	m.clockMx.Unlock()
}

// verifSync replaces Client.Sync (an RPC round trip): the request for a full sync is recorded.
func verifSync(c *Client) am.Time {
	verifSyncs++
	return nil
}

//verif:mode fork
//verif:override (*github.com/pancsta/asyncmachine-go/pkg/rpc.NetworkMachine).updateClock verifUpdateClock
//verif:override (*github.com/pancsta/asyncmachine-go/pkg/rpc.Client).Sync verifSync
//verif:override github.com/pancsta/asyncmachine-go/pkg/machine.randId verifRandIdRpc
// VerifC09Message: one delivered server push (possibly stale or for another snapshot): afterwards the
// mirror either holds exactly the clocks the message was derived for, or a full sync was requested.
func VerifC09Message() {
	n := 2
	ssC = states.ClientStatesDef{HandshakeDone: "HandshakeDone"}
	mach := am.New(nil, am.Schema{"HandshakeDone": {}}, nil)
	mach.Add1("HandshakeDone", nil)
	nm := &NetworkMachine{}
	c := &Client{Mach: mach, NetMach: nm}
	c.netMachInt = &NetMachInternal{nm: nm}
	verifApplied.n = 0
	verifSyncs = 0

	// the snapshot pair the message is derived from
	prev := make(am.Time, n)
	now := make(am.Time, n)
	var sumNow uint64
	upd := &MsgSrvUpdate{}
	for i := 0; i < n; i++ {
		prev[i] = vU64()
		d := vU32()
		now[i] = prev[i] + uint64(d)
		sumNow += now[i]
		if d != 0 {
			upd.Indexes = append(upd.Indexes, uint16(i))
			upd.Ticks = append(upd.Ticks, d)
		}
	}
	pq := vU64()
	dq := vU16()
	pm := vU32()
	dm := vU8()
	upd.QueueTick = dq
	upd.MachTick = dm
	upd.Checksum = Checksum(sumNow, pq+uint64(dq), pm+uint32(dm))

	// the mirror: in sync with prev, or drifted (a missed push)
	drift := vBool()
	nm.machTime = make(am.Time, n)
	copy(nm.machTime, prev)
	nm.queueTick = pq
	nm.machTick = pm
	if drift {
		// a drift the mod-256 checksum can see (C10): 1..255
		dd := vU8()
		vAssume(dd != 0)
		nm.machTime[vInt(0, n-1)] += uint64(dd)
	}
	viaMutations := vBool()
	if viaMutations {
		c.RemoteUpdateMutations(nil, &MsgSrvUpdateMuts{Updates: []MsgSrvUpdate{*upd}}, nil)
	} else {
		c.RemoteUpdate(nil, upd, nil)
	}
	vReach("message")
	converged := verifApplied.n == 1 && verifApplied.qTick == pq+uint64(dq) && verifApplied.mTick == pm+uint32(dm)
	if converged {
		for i := 0; i < n; i++ {
			if verifApplied.time[i] != now[i] {
				converged = false
			}
		}
	}
	vKnown("c09-remoteupdate-drops-resync", !viaMutations)
	vAssert("converged-or-resync-requested", converged || verifSyncs > 0)
	if verifApplied.n > 0 && !converged {
		vAssert("wrong-clock-never-applied-silently", verifSyncs > 0)
	}
}

func verifRandIdRpc(strLen int) string { return "vid" }
