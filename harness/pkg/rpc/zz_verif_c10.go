package rpc

// C10 harnesses: server-side snapshot + diff encoder vs client-side decoder + checksum test.
// Executed symbolically by symgo and natively (replay / translator validation).

//verif:go * drop

import (
	am "github.com/pancsta/asyncmachine-go/pkg/machine"
)

func init() {
	verifRegister("VerifC10Deep", VerifC10Deep)
	verifRegister("VerifC10Wide", VerifC10Wide)
	verifRegister("VerifC10Drift", VerifC10Drift)
	verifRegister("VerifC10Shallow", VerifC10Shallow)
	verifRegister("VerifC10Chain", VerifC10Chain)
}

// verifSource is the state source seen by the tracer: only the three getters
// the snapshot code uses are implemented, everything else is the nil embedded interface.
type verifSource struct {
	am.Api
	time am.Time
	q    uint64
	mt   uint32
}

func (v *verifSource) Time(states am.S) am.Time {
	ret := make(am.Time, len(v.time))
	copy(ret, v.time)
	return ret
}
func (v *verifSource) QueueTick() uint64   { return v.q }
func (v *verifSource) MachineTick() uint32 { return v.mt }

func verifNames() am.S { return am.S{"A", "B", "C", "D", "E", "F"} }

func verifSubset(names am.S) am.S {
	out := am.S{}
	for _, s := range names {
		if vBool() {
			out = append(out, s)
		}
	}
	return out
}

// verifServer builds a Server + sourceTracer with a symbolic sync configuration over n states;
// the tracked lists come from the real calcTrackedStates.
func verifServer(n int, syncSchema, shallow, syncMuts bool) (*Server, *sourceTracer, *verifSource) {
	names := verifNames()[:n]
	vSplit(syncSchema)
	srv := &Server{}
	srv.syncSchema = syncSchema
	srv.syncShallowClocks = shallow
	srv.syncMutations = syncMuts
	if mask := vParam("mask", -1); mask >= 0 {
		// case split by the driver: tracked subset given as a bit mask, through the
		// allow list or through the skip list
		allowed, skipped := am.S{}, am.S{}
		for i, s := range names {
			if mask&(1<<i) != 0 {
				allowed = append(allowed, s)
			} else {
				skipped = append(skipped, s)
			}
		}
		if vParam("viaskip", 0) == 1 {
			srv.syncSkippedStates = skipped
		} else {
			srv.syncAllowedStates = allowed
		}
	} else {
		if vBool() {
			srv.syncAllowedStates = verifSubset(names)
		}
		srv.syncSkippedStates = verifSubset(names)
	}
	src := &verifSource{}
	srv.Source = src
	t := &sourceTracer{s: srv, active: true}
	t.calcTrackedStates(names)
	srv.tracer = t
	return srv, t, src
}

// verifSnap runs the real tracer snapshot code for the given source clocks.
func verifSnap(t *sourceTracer, src *verifSource, full am.Time, q uint64, mt uint32) *tracerData {
	src.time, src.q, src.mt = full, q, mt
	tx := &am.Transition{Machine: &am.Machine{}, Mutation: &am.Mutation{}}
	t.TransitionEnd(tx)
	return t.dataLatest
}

// verifMirror is the client mirror holding snapshot prev: the tracked states' ticks in the
// client's index space, zero for states that are not synchronised (as after RemoteHello).
func verifMirror(n int, t *sourceTracer, prevFull am.Time, syncSchema bool) am.Time {
	if !syncSchema {
		return prevFull.Filter(t.trackedStateIdxs)
	}
	m := make(am.Time, n)
	for _, si := range t.trackedStateIdxs {
		m[si] = prevFull[si]
	}
	return m
}

func verifClientIdx(ti, si int, syncSchema bool) int {
	if syncSchema {
		return si
	}
	return ti
}

// verifDeepCase runs one deep-mode round trip. wide selects the wire field whose delta is left
// unconstrained (64/32 bits wide): 0 none (the whole region the wire format can represent, built
// constructively), 1 the tick of state wideIdx, 2 the queue tick, 3 the machine tick.
func verifDeepCase(wide, wideIdx int) {
	n := vParam("n", 3)
	syncSchema := vBool()
	_, t, src := verifServer(n, syncSchema, false, false)

	prevFull := make(am.Time, n)
	nowFull := make(am.Time, n)
	for i := range prevFull {
		prevFull[i] = vU64()
		if wide == 1 && i == wideIdx {
			nowFull[i] = prevFull[i] + vU64()
		} else {
			nowFull[i] = prevFull[i] + uint64(vU32())
		}
	}
	// verdict queries are decided by case analysis on which tracked deltas are zero (the encoder
	// compacts the index list by skipping them)
	for i := range prevFull {
		vSplit(nowFull[i] == prevFull[i])
	}
	pq := vU64()
	var dq uint64
	if wide == 2 {
		dq = vU64()
	} else {
		dq = uint64(vU16())
	}
	nq := pq + dq
	pm := vU32()
	var dm uint32
	if wide == 3 {
		dm = vU32()
	} else {
		dm = uint32(vU8())
	}
	nm := pm + dm

	prev := verifSnap(t, src, prevFull, pq, pm)
	now := verifSnap(t, src, nowFull, nq, nm)
	upd := calcUpdate(syncSchema, now, prev, false)
	mirror := verifMirror(n, t, prevFull, syncSchema)

	c := &Client{}
	after, q, m := c.clockFromUpdate(upd, mirror, pq, pm)
	accepted := Checksum(after.Sum(nil), q, m) == upd.Checksum

	switch wide {
	case 1:
		tr := false
		for _, si := range t.trackedStateIdxs {
			if si == wideIdx && nowFull[si]-prevFull[si] > 0xffffffff {
				tr = true
			}
		}
		vKnown("c10-tick-delta-trunc-u32", tr)
	case 2:
		vKnown("c10-queue-tick-delta-trunc-u16", dq > 0xffff)
	case 3:
		vKnown("c10-mach-tick-delta-trunc-u8", dm > 0xff)
	}

	vReach("deep-roundtrip")
	vAssert("len-preserved", len(after) == len(mirror))
	for ti, si := range t.trackedStateIdxs {
		ci := verifClientIdx(ti, si, syncSchema)
		vAssert("tracked-tick-exact", after[ci] == nowFull[si])
	}
	if syncSchema {
		for i := range after {
			tracked := false
			for _, si := range t.trackedStateIdxs {
				if si == i {
					tracked = true
				}
			}
			if !tracked {
				vAssert("untracked-untouched", after[i] == mirror[i])
			}
		}
	}
	vAssert("queue-tick-exact", q == nq)
	vAssert("mach-tick-exact", m == nm)
	if wide == 0 {
		vAssert("checksum-accepts", accepted)
	}
}

// VerifC10Deep: (R) round trip in deep mode over the whole region the wire format can represent
// (per-state delta < 2^32, queue delta < 2^16, machine tick delta < 2^8), built constructively.
func VerifC10Deep() { verifDeepCase(0, 0) }

// VerifC10Wide: (R) with one wire field's delta unconstrained. The truncation of that field is a
// known finding (vKnown region); outside the region the round trip must still be exact.
func VerifC10Wide() { verifDeepCase(vParam("wide", 2), vParam("wideidx", 0)) }

// VerifC10Drift: (D) a mirror whose (sum + queue tick + machine tick) differs mod 256 from the
// first snapshot's must be rejected by the checksum test. Deltas are built in-range.
func VerifC10Drift() {
	n := vParam("n", 3)
	syncSchema := vBool()
	_, t, src := verifServer(n, syncSchema, false, false)

	prevFull := make(am.Time, n)
	nowFull := make(am.Time, n)
	for i := range prevFull {
		prevFull[i] = vU64()
		nowFull[i] = prevFull[i] + uint64(vU32())
		vSplit(nowFull[i] == prevFull[i])
	}
	pq := vU64()
	nq := pq + uint64(vU16())
	pm := vU32()
	nm := pm + uint32(vU8())

	prev := verifSnap(t, src, prevFull, pq, pm)
	now := verifSnap(t, src, nowFull, nq, nm)
	upd := calcUpdate(syncSchema, now, prev, false)
	good := verifMirror(n, t, prevFull, syncSchema)

	// drifted mirror: arbitrary ticks of the same shape, arbitrary queue / machine tick
	bad := make(am.Time, len(good))
	for i := range bad {
		bad[i] = vU64()
	}
	bq := vU64()
	bm := vU32()
	vAssume(Checksum(bad.Sum(nil), bq, bm) != Checksum(good.Sum(nil), pq, pm))

	c := &Client{}
	after, q, m := c.clockFromUpdate(upd, bad, bq, bm)
	vReach("drift")
	vAssert("drift-rejected", Checksum(after.Sum(nil), q, m) != upd.Checksum)
}

// VerifC10Shallow: (R) in shallow mode: parity of every tracked state, queue and machine ticks,
// checksum accepted. The mirror holds any ticks whose parity equals the first snapshot's.
func VerifC10Shallow() {
	n := vParam("n", 3)
	syncSchema := vBool()
	_, t, src := verifServer(n, syncSchema, true, false)

	prevFull := make(am.Time, n)
	nowFull := make(am.Time, n)
	mirrorFull := make(am.Time, n)
	for i := range prevFull {
		prevFull[i] = vU64()
		nowFull[i] = prevFull[i] + uint64(vU32())
		// same parity as prev, otherwise arbitrary (the mirror starts from the deep hello export)
		mirrorFull[i] = (vU64() << 1) | (prevFull[i] & 1)
	}
	pq := vU64()
	nq := pq + uint64(vU16())
	pm := vU32()
	nm := pm + uint32(vU8())

	prev := verifSnap(t, src, prevFull, pq, pm)
	now := verifSnap(t, src, nowFull, nq, nm)
	upd := calcUpdate(syncSchema, now, prev, true)
	mirror := verifMirror(n, t, mirrorFull, syncSchema)

	c := &Client{SyncShallowClocks: true}
	// the client computes its tracked indexes from the state names it was given
	if syncSchema {
		c.trackedStateIdxs = t.trackedStateIdxs
	} else {
		c.trackedStateIdxs = make([]int, len(t.trackedStateIdxs))
		for i := range c.trackedStateIdxs {
			c.trackedStateIdxs[i] = i
		}
	}
	after, q, m := c.clockFromUpdate(upd, mirror, pq, pm)
	checksumTime := am.NewTime(after, c.trackedStateIdxs)
	accepted := Checksum(checksumTime.Sum(nil), q, m) == upd.Checksum

	vReach("shallow-roundtrip")
	for ti, si := range t.trackedStateIdxs {
		ci := verifClientIdx(ti, si, syncSchema)
		vAssert("tracked-parity-exact", after[ci]&1 == nowFull[si]&1)
	}
	vAssert("queue-tick-exact", q == nq)
	vAssert("mach-tick-exact", m == nm)
	vKnown("c10-shallow-checksum-mismatch", true)
	vAssert("shallow-checksum-accepts", accepted)
}

// VerifC10Chain: per-mutation updates (calcUpdateMutations) compose: applying the k updates in
// order to a mirror holding the first snapshot yields the last snapshot, each step accepted.
func VerifC10Chain() {
	n := vParam("n", 2)
	k := vParam("k", 3)
	syncSchema := vBool()
	_, t, src := verifServer(n, syncSchema, false, true)

	cur := make(am.Time, n)
	for i := range cur {
		cur[i] = vU64()
	}
	q := vU64()
	mt := vU32()
	prev := verifSnap(t, src, cur, q, mt)
	t.dataQueue = nil
	mirror := verifMirror(n, t, cur, syncSchema)
	mq, mm := q, mt

	for s := 0; s < k; s++ {
		next := make(am.Time, n)
		for i := range next {
			next[i] = cur[i] + uint64(vU32())
			vSplit(next[i] == cur[i])
		}
		q = q + uint64(vU16())
		mt = mt + uint32(vU8())
		cur = next
		verifSnap(t, src, cur, q, mt)
	}
	muts := t.DataQueue()
	vAssert("one-entry-per-transition", len(muts) == k)
	upd := calcUpdateMutations(syncSchema, muts, prev)
	vAssert("one-update-per-transition", len(upd.Updates) == k)

	c := &Client{}
	allAccepted := true
	for i := range upd.Updates {
		var after am.Time
		after, mq, mm = c.clockFromUpdate(&upd.Updates[i], mirror, mq, mm)
		if Checksum(after.Sum(nil), mq, mm) != upd.Updates[i].Checksum {
			allAccepted = false
		}
		mirror = after
	}
	vReach("chain")
	vAssert("chain-accepted", allAccepted)
	for ti, si := range t.trackedStateIdxs {
		ci := verifClientIdx(ti, si, syncSchema)
		vAssert("chain-tick-exact", mirror[ci] == cur[si])
	}
	vAssert("chain-queue-tick", mq == q)
	vAssert("chain-mach-tick", mm == mt)
}
