package zzverifself

func init() {
	verifRegister("VerifSelfSlices", VerifSelfSlices)
}

func names() []string { return []string{"A", "B", "C", "D"} }

func subset(ns []string) []string {
	out := []string{}
	for _, s := range ns {
		if vBool() {
			out = append(out, s)
		}
	}
	return out
}

func VerifSelfSlices() {
	n := vParam("n", 3)
	ns := names()[:n]
	vAssert("len", len(ns) == n)
	sub := subset(ns)
	vAssert("sublen", len(sub) <= n)
	cnt := 0
	for _, s := range sub {
		if s == "A" {
			cnt++
		}
	}
	vAssert("cnt", cnt <= 1)
	vAssert("cnt-wrong", cnt == 0)
	vReach("end")
}

func init() { verifRegister("VerifSelfMaps", VerifSelfMaps) }

type st struct{ A, B []string }

func VerifSelfMaps() {
	raw := map[string]st{"X": {A: []string{"Y"}}, "Y": {B: []string{"X"}}, "Z": {}}
	refs := true
	n := 0
	for name, s := range raw {
		for _, rel := range [][]string{s.A, s.B} {
			for _, r := range rel {
				n++
				if _, ok := raw[r]; !ok {
					refs = false
				}
			}
		}
		_ = name
	}
	vAssert("refs", refs)
	vAssert("count", n == 2)
	vReach("end")
}
