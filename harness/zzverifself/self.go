package zzverifself

func init() {
	verifRegister("VerifSelfSlices", VerifSelfSlices)
}

func names() []string { return []string{"A", "B", "C", "D"} }

func subset(ns []string) []string {
	out := []string{}
	for _, s := range ns {
		if vBool() {
			out = append(out, s)
		}
	}
	return out
}

func VerifSelfSlices() {
	n := vParam("n", 3)
	ns := names()[:n]
	vAssert("len", len(ns) == n)
	sub := subset(ns)
	vAssert("sublen", len(sub) <= n)
	cnt := 0
	for _, s := range sub {
		if s == "A" {
			cnt++
		}
	}
	vAssert("cnt", cnt <= 1)
	vAssert("cnt-wrong", cnt == 0)
	vReach("end")
}
