#!/usr/bin/env python3
"""Regenerates MANIFEST.json from the registry in props.py and the texts in manifest_texts.py."""
import json, os
import props, manifest_texts as T

ROOT = os.path.dirname(os.path.abspath(__file__))
ids = ["C%02d" % i for i in range(1, 21)]
checks, na = [], []
for pid in ids:
    if pid in props.PROPS and pid in T.CLAIMS:
        c = T.CLAIMS[pid]
        checks.append({
            "property_id": pid,
            "quick_cmd": "./check %s --tier quick" % pid,
            "thorough_cmd": "./check %s --tier thorough" % pid,
            "evidence_file": "/verif/evidence/%s.json" % pid,
            "replay_cmd_template": "./replay {path}",
            "engine": "symgo",
            "level_claimed": {"category": "model_checking", "text": c["text"], "design_ref": c.get("design_ref", "DESIGN.md section 4")},
            "level_note": c["note"],
            "technique": c.get("technique", "bounded symbolic execution of the real Go code (go/ssa) + SMT (z3), counterexamples replayed natively"),
        })
    else:
        na.append({"property_id": pid, "reason": T.NA.get(pid, "no check registered in this revision")})
m = {
    "version": 1,
    "setup_cmd": "cd /verif/symgo && PATH=/opt/veriftools/go1.26.8/bin:$PATH GOTOOLCHAIN=local GOFLAGS=-mod=mod GOPROXY=off GOSUMDB=off go build -o /verif/bin/symgo .",
    "hooks": {
        "guard": "verif",
        "enable": "go build/test -tags verif (no hook commit exists in this revision: harnesses are injected with go/packages overlays and go test -overlay, nothing is written to /repo; the schedule points of C04 are inserted into an overlay copy of pkg/machine/machine.go regenerated from the current tree on every run)",
        "baseline_off_cmd": "for m in $(cat /w/out/gomods.txt); do MF=$(cd /repo/$m && . /w/out/goenv.sh && gomodflag); (cd /repo/$m && go test $MF -json -vet=off -count=1 -timeout 25m ./...); done",
        "source_commits": T.HOOK_COMMITS,
        "add_only": True,
    },
    "engines": [{
        "name": "symgo", "path": "/verif/symgo",
        "serves_properties": [c["property_id"] for c in checks],
        "kind_free_text": "guarded merging symbolic interpreter for go/ssa written for this task; SMT-LIB2 bit-vector terms, one long-lived z3 per harness run, "
                          "z3 5.1.0 and cvc5 cross-checks in the thorough tier, native replay of every model via go test -overlay",
    }],
    "checks": checks,
    "not_applicable": na,
    "notes": T.NOTES,
}
json.dump(m, open(os.path.join(ROOT, "MANIFEST.json"), "w"), indent=1)
print("claimed:", [c["property_id"] for c in checks])
