#!/bin/bash
# usage: seedtest.sh <prop id> <k> <pkgdir> [check ids...]
# 1. confirms in the scratch worktree /tmp/seed-<id>: demo fails with the patch, passes without, package tests pass with the patch
# 2. applies the patch to /repo, runs the checks, undoes it
export GOFLAGS=-mod=mod GOPROXY=off GOSUMDB=off GOTOOLCHAIN=local PATH=/opt/veriftools/go1.26.8/bin:$PATH
id=$1; k=$2; pkg=$3; shift 3
wt=/tmp/seed-$id; out=/tmp/seed-$id-out
cd $wt && git checkout -q -- . && rm -f $pkg/zz_seed_demo_test.go
cp $out/demo${k}_test.go $pkg/zz_seed_demo_test.go
echo "== demo on original:"; timeout 600 go test -vet=off -count=1 -run 'Seed' ./$pkg 2>&1 | tail -2
git apply $out/patch$k.diff || { echo "PATCH DOES NOT APPLY"; exit 1; }
echo "== demo with patch:"; timeout 600 go test -vet=off -count=1 -run 'Seed' ./$pkg 2>&1 | tail -2
rm -f $pkg/zz_seed_demo_test.go
echo "== package tests with patch:"; timeout 1500 go test -vet=off -count=1 ./$pkg 2>&1 | tail -2
git checkout -q -- .
cd /repo && git apply $out/patch$k.diff || { echo "PATCH DOES NOT APPLY TO /repo"; exit 1; }
for c in "$@"; do
  echo "== check $c with patch:"; (cd /verif && timeout 1800 ./check $c --tier quick 2>&1 | grep -v "^KNOWN-FINDING" | cut -c1-300 | tail -4); echo "exit=$?"
done
git -C /repo checkout -- .
git -C /repo status --short | head -3
