"""Per-property check specifications: which harness functions to run with which case parameters.

Every unit is one symbolic execution of a harness function (real repo code from go/ssa) under a set
of case parameters; inside a unit all remaining inputs are SMT variables.
"""


def U(pkg, func, weight=1, nconcrete=0, **params):
    return {"pkg": pkg, "func": func, "params": params, "weight": weight, "nconcrete": nconcrete}


def c10(tier):
    units = []
    nmax = 4 if tier == "quick" else 6
    pkg = "./pkg/rpc"
    first = True
    for n in range(1, nmax + 1):
        for mask in range(1 << n):
            for viaskip in ((mask + n) % 2,) if tier == "quick" else (0, 1):
                units.append(U(pkg, "VerifC10Deep", weight=n, nconcrete=3 if first else 0, n=n, mask=mask, viaskip=viaskip))
                first = False
    # fully symbolic allow/skip lists (no case split on the tracked subset)
    units.append(U(pkg, "VerifC10Deep", weight=8, n=2))
    if tier == "thorough":
        units.append(U(pkg, "VerifC10Deep", weight=60, n=3))
    # one wire field unconstrained: known truncation findings + exactness outside the region
    for n, mask in ((2, 3), (3, 5)) if tier == "quick" else ((2, 3), (3, 5), (3, 7), (4, 15), (5, 21)):
        for wide in (1, 2, 3):
            idxs = range(n) if wide == 1 and tier == "thorough" else (0,)
            for wi in idxs:
                units.append(U(pkg, "VerifC10Wide", weight=n, nconcrete=2 if (n, wide) == (2, 2) else 0, n=n, mask=mask, wide=wide, wideidx=wi))
    dn = 3 if tier == "quick" else 5
    for n in range(1, dn + 1):
        for mask in range(1, 1 << n):
            units.append(U(pkg, "VerifC10Drift", weight=2 * n, nconcrete=2 if (n, mask) == (2, 3) else 0, n=n, mask=mask))
    for n in range(1, (3 if tier == "quick" else 5) + 1):
        for mask in range(1 << n):
            units.append(U(pkg, "VerifC10Shallow", weight=n, nconcrete=2 if (n, mask) == (2, 3) else 0, n=n, mask=mask))
    for n, k in ((1, 2), (2, 2), (2, 3)) if tier == "quick" else ((1, 3), (2, 2), (2, 3), (3, 3), (3, 2)):
        for mask in range(1, 1 << n):
            units.append(U(pkg, "VerifC10Chain", weight=3 * n * k, nconcrete=2 if (n, k, mask) == (2, 2, 3) else 0, n=n, k=k, mask=mask))
    return {
        "units": units,
        "timeout_ms": 30000 if tier == "quick" else 120000,
        "bounds": {"states": "1..%d" % nmax, "tracked_subset": "every subset, through the allow list or the skip list (case split); "
                   "fully symbolic allow+skip lists for n=2" + (" and n=3" if tier == "thorough" else ""),
                   "ticks": "64-bit previous ticks, per-state delta any uint32, queue delta any uint16, machine-tick delta any uint8 (the whole "
                   "region the wire format represents); one field at a time unconstrained (64/32-bit) in VerifC10Wide",
                   "modes": "schema-synced and schema-less index spaces (symbolic bool), deep and shallow",
                   "chains": "calcUpdateMutations chains of 2..3 per-mutation updates"},
        "outside": ["more than %d states" % nmax, "first-push / grown-schema branch of genDeepUpdate (prev shorter than now)",
                    "the real Client.clockUpdate wrapper around the checksum comparison (C09 covers it)", "msgpack encoding of the message"],
        "assumptions": ["snapshots come from the real sourceTracer.TransitionEnd fed by a stub am.Api source (Time/QueueTick/MachineTick)",
                        "the mirror holds the first snapshot in the client's index space with zeros for unsynchronised states, as after RemoteHello",
                        "go statement in TransitionEnd (pushClient) is dropped",
                        "verdict queries are decided by case analysis over which deltas are zero (vSplit), each case a solver query"],
    }


PROPS = {
    "C10": c10,
}
