"""Per-property check specifications: which harness functions to run with which case parameters.

Every unit is one symbolic execution of a harness function (real repo code from go/ssa) under a set
of case parameters; inside a unit all remaining inputs are SMT variables.
"""


def U(pkg, func, weight=1, nconcrete=0, **params):
    return {"pkg": pkg, "func": func, "params": params, "weight": weight, "nconcrete": nconcrete}


def c10(tier):
    units = []
    nmax = 4 if tier == "quick" else 6
    pkg = "./pkg/rpc"
    first = True
    for n in range(1, nmax + 1):
        for mask in range(1 << n):
            for viaskip in ((mask + n) % 2,) if tier == "quick" else (0, 1):
                units.append(U(pkg, "VerifC10Deep", weight=n, nconcrete=3 if first else 0, n=n, mask=mask, viaskip=viaskip))
                first = False
    # fully symbolic allow/skip lists (no case split on the tracked subset)
    units.append(U(pkg, "VerifC10Deep", weight=8, n=2))
    if tier == "thorough":
        units.append(U(pkg, "VerifC10Deep", weight=60, n=3))
    # one wire field unconstrained: known truncation findings + exactness outside the region
    for n, mask in ((2, 3), (3, 5)) if tier == "quick" else ((2, 3), (3, 5), (3, 7), (4, 15), (5, 21)):
        for wide in (1, 2, 3):
            idxs = range(n) if wide == 1 and tier == "thorough" else (0,)
            for wi in idxs:
                units.append(U(pkg, "VerifC10Wide", weight=n, nconcrete=2 if (n, wide) == (2, 2) else 0, n=n, mask=mask, wide=wide, wideidx=wi))
    dn = 3 if tier == "quick" else 5
    for n in range(1, dn + 1):
        for mask in range(1, 1 << n):
            units.append(U(pkg, "VerifC10Drift", weight=2 * n, nconcrete=2 if (n, mask) == (2, 3) else 0, n=n, mask=mask))
    for n in range(1, (3 if tier == "quick" else 5) + 1):
        for mask in range(1 << n):
            units.append(U(pkg, "VerifC10Shallow", weight=n, nconcrete=2 if (n, mask) == (2, 3) else 0, n=n, mask=mask))
    for n, k in ((1, 2), (2, 2), (2, 3)) if tier == "quick" else ((1, 3), (2, 2), (2, 3), (3, 3), (3, 2)):
        for mask in range(1, 1 << n):
            units.append(U(pkg, "VerifC10Chain", weight=3 * n * k, nconcrete=2 if (n, k, mask) == (2, 2, 3) else 0, n=n, k=k, mask=mask))
    return {
        "units": units,
        "timeout_ms": 30000 if tier == "quick" else 120000,
        "bounds": {"states": "1..%d" % nmax, "tracked_subset": "every subset, through the allow list or the skip list (case split); "
                   "fully symbolic allow+skip lists for n=2" + (" and n=3" if tier == "thorough" else ""),
                   "ticks": "64-bit previous ticks, per-state delta any uint32, queue delta any uint16, machine-tick delta any uint8 (the whole "
                   "region the wire format represents); one field at a time unconstrained (64/32-bit) in VerifC10Wide",
                   "modes": "schema-synced and schema-less index spaces (symbolic bool), deep and shallow",
                   "chains": "calcUpdateMutations chains of 2..3 per-mutation updates"},
        "outside": ["more than %d states" % nmax, "first-push / grown-schema branch of genDeepUpdate (prev shorter than now)",
                    "the real Client.clockUpdate wrapper around the checksum comparison (C09 covers it)", "msgpack encoding of the message"],
        "assumptions": ["snapshots come from the real sourceTracer.TransitionEnd fed by a stub am.Api source (Time/QueueTick/MachineTick)",
                        "the mirror holds the first snapshot in the client's index space with zeros for unsynchronised states, as after RemoteHello",
                        "go statement in TransitionEnd (pushClient) is dropped",
                        "verdict queries are decided by case analysis over which deltas are zero (vSplit), each case a solver query"],
    }


PROPS = {
    "C10": c10,
}


MACH = "./pkg/machine"


def shards(func, pbits, weight=4, nconcrete=0, **params):
    """symbolic-schema units sharded by fixing the first pbits schema bits"""
    out = []
    for pv in range(1 << pbits):
        out.append(U(MACH, func, weight=weight, nconcrete=nconcrete if pv == 0 else 0, schema=-1, pbits=pbits, pval=pv, **params))
    return out


# curated 3-state schemas (bit codes for verifSchemaBits, multi/auto/after off: 6 bits per state =
# Require[2] Add[2] Remove[2]); includes the C02 finding (682 + the continuation found by the solver)
def code3(a, b, c):
    """each arg: (require, add, remove) as sets of the other two states in index order"""
    names = "ABC"
    code, pos = 0, 0
    for i, (req, add, rem) in enumerate((a, b, c)):
        others = [x for x in names if x != names[i]]
        for rel in (req, add, rem):
            for o in others:
                if o in rel:
                    code |= 1 << pos
                pos += 1
    return code


CURATED3 = [
    code3(("C", "C", ""), ("C", "C", "A"), ("A", "AB", "")),   # C02 finding
    code3(("", "", ""), ("A", "", ""), ("B", "", "")),          # Require chain
    code3(("", "B", ""), ("", "C", ""), ("", "", "A")),         # Add chain ending in a Remove
    code3(("", "", "BC"), ("", "", "AC"), ("", "", "AB")),      # exclusive group
    code3(("B", "", ""), ("C", "", ""), ("A", "", "")),         # Require cycle
    code3(("", "BC", ""), ("A", "", "C"), ("", "", "")),
    code3(("", "", "B"), ("", "", "A"), ("AB", "", "")),
    code3(("", "C", "B"), ("", "A", ""), ("B", "", "")),
]


def mach_units(func, tier, n2_params=None, n3=True, weight=4, pbits2=4, extra=None, nconcrete=2, shards3=True):
    extra = extra or {}
    units = []
    for mut in (0, 1, 2):
        units += shards(func, pbits2, weight=weight, nconcrete=nconcrete if mut == 0 else 0, n=2, mut=mut, **(n2_params or {}), **extra)
    if n3:
        for sc in CURATED3:
            units.append(U(MACH, func, weight=2, n=3, schema=sc, **extra))
        if tier == "thorough" and shards3:
            for pv in range(0, 1024, 64):
                units.append(U(MACH, func, weight=20, n=3, schema=-1, pbits=10, pval=pv, mut=0, **extra))
    return units


MACH_ASSUME = [
    "machine built by the real New(); pre-state injected into activeStates/clock (parity-consistent ticks < 2^62) under the property's own invariant "
    "(Require-closed, no active state removed by another active state); counterexamples are replayed natively, where a bounded search over public "
    "mutations must first reach the injected pre-state (otherwise the counterexample is discarded as starting from an unreachable state)",
    "handler goroutine served inline (rendezvous on handlerStart/handlerEnd): the fault-free protocol sequentialised; handler timer never fires",
    "go statements dropped (handlerLoop); randId replaced by a constant; time.Since returns one symbolic duration per run",
    "fork mode: every symbolic branch forks the path (feasibility by z3), assertions are decided on each path",
]
MACH_BOUNDS = {"states": "2 user states + Exception with every schema (all Require/Add/Remove bits symbolic); 3 user states for 8 curated schemas "
               "(thorough: 16 of 1024 shards of the 18-bit symbolic schema space, Add mutations, each shard capped at 20000 paths - a capped shard is reported as INCONCLUSIVE, i.e. a reduced bound)",
               "pre_state": "every consistent active set", "mutation": "Add / Remove / Set over every non-empty called set",
               "handlers": "one map binding with every handler name; negotiation results = symbolic veto table"}
MACH_OUT = ["more than 3 user states", "several bindings / StatePrefix / struct handlers found by reflection", "handler timeouts and panics (C08)",
            "concurrent callers (C04, C12)", "3-state schemas outside the curated list (quick tier)"]


def c02(tier):
    units = []
    for multi in (0, 1):
        for mut in (0, 1, 2):
            units += shards("VerifC02Step", 3, n=2, mut=mut, multi=multi, nconcrete=2 if (multi, mut) == (0, 0) else 0)
    for sc in CURATED3:
        units.append(U(MACH, "VerifC02Step", weight=2, n=3, schema=sc, multi=0))
    # every 3-state schema with at most 2 (thorough: 3) relation entries (sparse family), sharded by the first bits
    me, pb = (2, 3) if tier == "quick" else (3, 5)
    for mut in (0, 1, 2):
        for pv in range(1 << pb):
            units.append(U(MACH, "VerifC02Step", weight=6, n=3, schema=-1, pbits=pb, pval=pv, maxedges=me, multi=0, mut=mut))
    # 4 states, Add relations only (chains and diamonds), at most 4 entries
    for pv in range(16):
        units.append(U(MACH, "VerifC02Step", weight=8, n=4, schema=-1, pbits=4, pval=pv, maxedges=4, only=1, multi=0, mut=0, emptypre=1, single=1))
    if tier == "thorough":
        for pv in range(0, 1024, 8):
            units.append(U(MACH, "VerifC02Step", weight=20, n=3, schema=-1, pbits=10, pval=pv, multi=0, mut=0))
    return {"units": units, "bounds": dict(MACH_BOUNDS, handlers="none (relations only)"), "outside": MACH_OUT + ["After relation (C05)", "Auto states (C07)"],
            "assumptions": MACH_ASSUME + ["graph.TopologicalSort is replaced by a stub (order only matters for handler order, C05)"]}


def c03(tier):
    units = mach_units("VerifC03Step", tier, extra={"multi": 1, "auto": 0})
    # Auto-flagged states called manually (an auto mutation may follow in the same drain)
    for mut in (0, 2):
        units += shards("VerifC03Step", 5, weight=6, n=2, multi=0, auto=1, mut=mut)
    units += [u for mut in (0,) for u in shards("VerifC03Check", 4, n=2, multi=0)]
    for early in (0, 1, 2):
        units += shards("VerifC03Early", 2, n=2, multi=0, early=early)
    units.append(U(MACH, "VerifC03Early", n=2, multi=0, early=3, schema=0))
    return {"units": units, "bounds": MACH_BOUNDS, "outside": MACH_OUT, "assumptions": MACH_ASSUME}


def c01(tier):
    units = []
    for handlers in (0, 1):
        units += mach_units("VerifC01Clock", tier, extra={"multi": 1, "handlers": handlers, "check": 0}, n3=(handlers == 0))
    units += shards("VerifC01Clock", 4, n=2, multi=1, handlers=1, check=1)
    for pv in range(16):
        units.append(U(MACH, "VerifC01Clock", weight=8, n=4, schema=-1, pbits=4, pval=pv, maxedges=4, only=1, multi=0, handlers=0, check=0, mut=0, emptypre=1, single=1))
    return {"units": units, "bounds": dict(MACH_BOUNDS, ticks="symbolic 62-bit base per state, parity = activity"), "assumptions": MACH_ASSUME + [
        "concurrent readers: not explored; every write of activeStates/clock in the encoded code happens inside the activeStatesMx critical section (see DESIGN)"],
        "outside": MACH_OUT + ["interleavings of concurrent readers (covered only by the lock-discipline argument in DESIGN.md)"]}


def c05(tier):
    units = mach_units("VerifC05Order", tier, extra={"multi": 0, "after": 0, "auto": 0})
    units += shards("VerifC05Order", 4, n=2, multi=1, after=1, mut=0)
    for mut in (0, 2):
        units += shards("VerifC05Order", 5, weight=6, n=2, multi=0, after=0, auto=1, mut=mut)
    # 3 states, only Require and After relations (ordering), at most 2 (thorough 3) entries
    me = 2 if tier == "quick" else 3
    for mut in ((0,) if tier == "quick" else (0, 1, 2)):
        for pv in range(16):
            units.append(U(MACH, "VerifC05Order", weight=6, n=3, schema=-1, pbits=4, pval=pv, maxedges=me, only=2, multi=0, after=1, auto=0, mut=mut, novetos=1))
    return {"units": units, "bounds": MACH_BOUNDS, "outside": MACH_OUT + ["After relations over 3 states (known finding c05-after-not-transitive is checked in C05After)"],
            "assumptions": MACH_ASSUME}


def c07(tier):
    # no symbolic 3-state shards for C07: the justification oracle is not settled there (DESIGN.md A.2)
    units = mach_units("VerifC07Auto", tier, pbits2=5, weight=8, shards3=False)
    if tier == "thorough":
        for mut in (0, 1, 2):
            units += shards("VerifC07Auto", 5, weight=8, n=2, mut=mut, multi=1)
    # 4 user states, two or three of them Auto and no relations, from the empty machine (Add of every called set): several called
    # Auto states with several active states, so state-state vetoes can arrive in any order (bit 10*i+9 = Auto of state i)
    for sc in ((1 << 29) | (1 << 39), (1 << 19) | (1 << 29) | (1 << 39)):
        units.append(U(MACH, "VerifC07Auto", weight=10, n=4, schema=sc, mut=0, emptypre=1))
    b = dict(MACH_BOUNDS, states="2 user states + Exception with every schema (all Require/Add/Remove/Auto bits symbolic; thorough also with Multi); 3 user states for 8 curated schemas; 4 user states for 2 relation-free schemas "
             "with 2 / 3 Auto states (Add of every called set from the empty machine, every veto table)")
    return {"units": units, "bounds": b, "outside": MACH_OUT + ["health-check mutations", "AnyEnter veto (pinned to no veto)", "symbolic 3-state schemas: the "
            "'rejected Auto state is justified' oracle is not settled there (an auto mutation is canceled as a whole by a state-state handler veto of another called "
            "Auto state; whether that is justified 'by relations' depends on a reading of the property) - excluded rather than alarmed on"], "assumptions": MACH_ASSUME}


def c14(tier):
    units = mach_units("VerifC14Tracer", tier, pbits2=5, weight=8, extra={"auto": 1, "handlers": 1})
    units += mach_units("VerifC14Tracer", tier, pbits2=3, extra={"auto": 0, "handlers": 0}, n3=False)
    return {"units": units, "bounds": MACH_BOUNDS, "outside": MACH_OUT + ["several goroutines", "several tracers", "dbg / history consumers"], "assumptions": MACH_ASSUME}


PROPS.update({"C01": c01, "C02": c02, "C03": c03, "C05": c05, "C07": c07, "C14": c14})


def c20(tier):
    units = [U(MACH, f, weight=w, nconcrete=3) for f, w in (("VerifC20Sets", 20), ("VerifC20Index", 10), ("VerifC20Time", 2), ("VerifC20Queue", 2),
                                                            ("VerifC20Parse", 2), ("VerifC20Event", 1), ("VerifC20Getters", 3))]
    for w in range(9):
        units.append(U(MACH, "VerifC20When", when=w))
    for mi in (0, 1):
        units.append(U(MACH, "VerifC20Misc", misc=mi))
    for a in range(6):
        units.append(U("./pkg/helpers", "VerifC20Ask", ask=a))
    return {"units": units,
            "bounds": {"lists": "sub-lists of 4 names and lists of length <=3 with duplicates / an unknown name", "time": "Time of length 0..3, 64-bit ticks, "
                       "indexes -1..len-1", "queue": "0..2 queued mutations, every Position", "contexts": "nil and live contexts for every When* method"},
            "outside": ["pkg/helpers wait helpers (AddSync, WaitFor*: timers, reflect.Select) and pkg/integrations JSON handlers (not encoded); of pkg/helpers only CantAdd/CantRemove/AskAdd/AskRemove (+1 variants) on a handler-less 3-state machine", "enumeration of entry points by "
                        "reflection: the list of kernels is static", "Time.Equal(false, shorter) (undocumented precondition; candidate only)"],
            "assumptions": ["documented preconditions only: states exist in the schema, indexes in -1..len-1", "panics are violations (//verif:panics violation)"]}


PROPS["C20"] = c20


def c04(tier):
    units = []
    for mut in (0, 1, 2):
        for nk in (0, 1, 2):
            # schemas with at most one relation / Multi bit (4 bits per state: Require Add Remove Multi), one unit each
            for code in [0] + [1 << i for i in range(8)]:
                units.append(U(MACH, "VerifC04Nested", weight=4, n=2, schema=code, mut=mut, nk=nk, vetos=0 if tier == "quick" else 1))
            # a busy queue around the nested mutation: a tick-less check mutation prepended before it (around=1), an Eval
            # with an already ended context prepended in front of it (around=2)
            for around in (1, 2):
                for code in ([0] if tier == "quick" else [0, 1, 2, 4, 8]):
                    units.append(U(MACH, "VerifC04Nested", weight=3, n=2, schema=code, mut=mut, nk=nk, vetos=0, around=around))
    # two goroutines: the second caller's mutation lands at a symbolic statement boundary of the first caller's
    # queueMutation / PrependMut / processQueue (schedule = symbolic booleans, one per instrumented point)
    for mut in (0, 1, 2):
        for mut2 in (0, 1, 2):
            for code in ([0, 8] if tier == "quick" else [0] + [1 << i for i in range(8)]):
                units.append(U(MACH, "VerifC04Race", weight=4, n=2, schema=code, mut=mut, mut2=mut2))
    for g1 in (1, 2):
        for mut2 in (0, 1, 2):
            units.append(U(MACH, "VerifC04Race", weight=2, n=2, schema=0, mut=0, mut2=mut2, g1=g1))
    return {"units": units, "bounds": dict(MACH_BOUNDS, states="2 user states, schemas with at most one relation / Multi bit", schedules="2 goroutines, one mutation each: "
                                       "the second call runs as one atomic block at any statement boundary of queueMutation / PrependMut / processQueue / Eval of the first "
                                       "(the first being a mutation or an Eval; also from inside the eval function) "
                                       "(incl. the window between the drain loop's last length check and the release of the processing flag) where the first holds no mutex", nesting="one mutation (Add/Remove/Set over any called set) issued from inside any one handler call, "
                                       "alone, after a CanAdd1 check from the same handler, or followed by an Eval whose context has already ended; "
                                       "quick tier: handlers never veto, thorough: symbolic veto table"),
            "outside": MACH_OUT + ["more than 2 goroutines, preemption inside other functions than queueMutation / PrependMut / processQueue, preemption while a mutex is held, more than one context switch into the second goroutine", "Eval with a live context (blocks the caller until the queue reaches it)", "handler timeouts / dispose flushing"],
            "assumptions": MACH_ASSUME}


def c06(tier):
    units = []
    extras = (1,) if tier == "quick" else (0, 1, 2)
    # WhenTicks (3) and WhenNextActive (4) are thin wrappers over WhenTime (2): thorough tier only
    for kind in ((0, 1, 2, 5, 6, 7) if tier == "quick" else range(8)):
        for pos in (0, 1, 2):
            for m1 in (0, 1, 2):
                # quick: the cancelation context only for When / WhenNot
                ctx = -1 if (tier == "thorough" or kind in (0, 1, 5)) else 0
                for ex in extras if kind in (2, 3, 5, 7) else (1,):
                    units.append(U(MACH, "VerifC06Wait", weight=5, n=2, schema=0, kind=kind, pos=pos, mut1=m1, auto=0, ctx=ctx, extra=ex))
    # NewStateCtx over a Multi state (4 bits per state: Require Add Remove Multi): re-activation is a new instance
    for pos in (0, 2):
        for m1 in (0, 1, 2):
            units.append(U(MACH, "VerifC06Wait", weight=5, n=2, schema=8, kind=6, pos=pos, mut1=m1, auto=0, ctx=0, extra=1))
    # schemas with an Auto / Multi state (5 bits per state: Require Add Remove Multi Auto): partially accepted
    # auto mutations, Multi re-activation
    # two When / WhenNot subscriptions sharing one context, 3 states, two single-state mutations
    for k1 in (0, 1):
        for k2 in (0, 1):
            for s1 in ((3, 7) if tier == "quick" else range(1, 8)):
                units.append(U(MACH, "VerifC06SharedCtx", weight=5, n=3, schema=0, k1=k1, k2=k2, s1=s1))
    units.append(U(MACH, "VerifC06QueryCtx", weight=3, n=2, schema=0))
    units.append(U(MACH, "VerifC06Schema", weight=3, n=2, schema=0))
    codes = (16,) if tier == "quick" else (16, 20, 17, 8, 24)
    kinds = (6,) if tier == "quick" else (0, 1, 2, 6)
    for kind in kinds:
        for pos in (0, 2):
            for sc in codes:
                for m1 in (0, 1, 2):
                    units.append(U(MACH, "VerifC06Wait", weight=6, n=2, schema=sc, kind=kind, pos=pos, auto=1, mut1=m1))
    return {"units": units, "bounds": {"transitions": "2 mutations (plus their auto mutations)", "subscription": "before the first mutation, from a final handler of it "
                                       "(between setActiveStates and processSubscriptions), or after it", "states": "2 user states, Multi, schema without relations for every "
                                       "When* kind; schemas with <=2 relation/Auto bits for When/WhenNot/NewStateCtx", "ctx": "none, live, cancelled between the mutations"},
            "outside": ["WhenArgs, WhenQueueEnds (only in the C20 totality kernels)", "SetSchema growth", "a subscribing goroutine racing with the transition (positions are reached "
                        "from the same goroutine / a final handler)", "dispose (C13)"], "assumptions": MACH_ASSUME}


def c08(tier):
    units = shards("VerifC08Fault", 3, weight=4, n=2) + shards("VerifC08Fault", 3, weight=6, n=2, double=1)
    # a second fault inside the Exception state's own handlers (1: ExceptionEnter, 2: ExceptionState)
    units += shards("VerifC08Fault", 1, weight=2, n=2, excfault=1) + shards("VerifC08Fault", 1, weight=2, n=2, excfault=2)
    return {"units": units, "bounds": dict(MACH_BOUNDS, fault="one panic at any of the first 6 handler calls of one mutation (negotiation or final handler), on a machine without an "
                                       "earlier fault or with Exception still active from a first fault (sequence of two faults); a second fault inside ExceptionEnter / ExceptionState of the recovery mutation "
                                       "(the handler goroutine's death and restart are tracked: a handler call without a live loop is a wedge; natively a 3 s watchdog)"),
            "outside": ["that a real panic cannot escape the handler goroutine (the fault is delivered on handlerPanic as handlerLoop's recover does)", "handler timeouts, deadlines, backoff timing",
                        "sequences of more than two faults", "PanicToErr for forked code"], "assumptions": MACH_ASSUME}


def c11(tier):
    units = []
    # mutually removing / chained Auto states over 3 states (bit codes: 7 bits per state = Require[2] Add[2] Remove[2] Auto)
    def c(a, b, cc):
        names = "ABC"
        code, pos = 0, 0
        for i, (req, add, rem, auto) in enumerate((a, b, cc)):
            others = [x for x in names if x != names[i]]
            for rel in (req, add, rem):
                for o in others:
                    if o in rel:
                        code |= 1 << pos
                    pos += 1
            if auto:
                code |= 1 << pos
            pos += 1
        return code
    cur = [c(("", "", "B", 1), ("", "", "A", 1), ("", "", "", 0)), c(("", "", "", 1), ("A", "", "", 1), ("", "", "", 0)),
           c(("", "C", "", 1), ("", "", "C", 1), ("", "", "", 0)), c(("", "", "BC", 1), ("", "", "AC", 1), ("", "", "AB", 1)),
           c(("C", "", "", 0), ("C", "", "", 0), ("", "", "", 0)), c(("C", "", "", 0), ("", "", "", 0), ("B", "", "", 0))]
    for sc in cur:
        for mut in (0, 1, 2):
            units.append(U(MACH, "VerifC11Determinism", weight=6, n=3, schema=sc, mut=mut))
    for mut in (0, 1, 2):
        units += shards("VerifC11Determinism", 4, weight=6, n=2, mut=mut, maxedges=4)
    return {"units": units, "bounds": {"schemas": "2 user states with at most 4 relation/Auto bits; 4 curated 3-state schemas with Auto states", "runs": "two executions with "
                                       "independently chosen iteration orders at the map ranges of NewAutoMutation, TopologicalSort and ParseStates", "mutation": "one mutation (+auto)"},
            "outside": ["map ranges outside the three named functions", "random identifiers (replaced by a constant)", "histories longer than one mutation"],
            "assumptions": MACH_ASSUME + ["natively the counterexample is confirmed by 48 re-executions of the same history"]}


def c13(tier):
    units = [U(MACH, "VerifC13Dispose", weight=10, nconcrete=2)]
    for at in range(6):
        units.append(U(MACH, "VerifC13InFlight", weight=4, n=2, schema=0, at=at))
    return {"units": units, "bounds": {"waiters": "any subset of When, WhenNot, WhenTime, WhenArgs, WhenQueue, WhenQuery, NewStateCtx (with or without a shared ctx)",
                                       "dispose_handlers": "0..2", "dispose": "DisposeForce once or twice on an idle machine; DisposeForce landing inside a running transition "
                                       "(tracer hooks init/start/finals/end, a negotiation handler, a final handler) of one Add1/Remove1 on a 2-state machine"},
            "outside": ["Dispose() proper (forks doDispose, sleeps, waits for the queue)", "handler goroutine exit, goroutine leaks", "Dispose concurrent with mutations on another goroutine, "
                        "in-flight Eval", "pkg/states DisposedHandlers, amhelp.Dispose"], "assumptions": MACH_ASSUME}


PROPS.update({"C04": c04, "C06": c06, "C08": c08, "C11": c11, "C13": c13})


def c16(tier):
    pkg = "./tools/debugger/server"
    units = [U(pkg, f, nconcrete=3) for f in ("VerifC16QueueTick", "VerifC16MachTime", "VerifC16Errors", "VerifC16Index")]
    units.append(U("./tools/debugger", "VerifC16Filter"))
    pkg2 = "./pkg/helpers"
    return {"units": units,
            "bounds": {"stream": "0..4 transitions with non-decreasing 64-bit queue ticks / time sums (built from symbolic 32/16-bit increments), descending error index "
                       "lists of length 0..3, 3 transition ids; filters: 1..3 records with symbolic IsAuto/Accepted/IsQueued/IsCheck flags and queue ticks 0..3, any combination of the 6 basic filters", "queries": "any 64-bit queue tick / time sum, any index -1..5, cursor 0..7"},
            "outside": ["hParseMsg derivations (added/removed/touched, sums) and GetTransitionStates: not encoded in this revision", "TUI navigation (Fwd/Back/scroll handlers), group / healthcheck filters and hFilterTxCursor1 (hFilterTx's basic transition filters are encoded)",
                        "gob/brotli export-import", "several clients", "TxAtHTime (wall-clock time.Time arithmetic)"],
            "assumptions": ["Client built as a struct literal with the exported slices filled by the harness", "fork mode: comparisons on symbolic values fork, z3 decides feasibility"]}


PROPS["C16"] = c16


def _prepare_shipped(repo, work, tier, spec, env):
    """dump the shipped schemas of the current /repo natively and generate the literal harness"""
    import json, os, subprocess
    root = os.path.dirname(os.path.abspath(__file__))
    sj = os.path.join(work, "schemas.json")
    gen = os.path.join(work, "gen")
    subprocess.run(["python3", os.path.join(root, "tools", "dump_schemas.py"), repo, sj], check=True, env=env)
    subprocess.run(["python3", os.path.join(root, "tools", "gen_shipped.py"), sj, gen], check=True, env=env)
    idx = json.load(open(os.path.join(gen, "shipped_index.json")))
    units = []
    skipped = []
    for s in idx["schemas"]:
        n = s["states"]
        if spec.get("only_pkgs") and not any(s["pkg"].endswith(p) for p in spec["only_pkgs"]):
            continue
        if tier == "quick":
            depth = 2 if n <= 12 else (1 if n <= 60 else 0)
        else:
            depth = 3 if n <= 8 else (2 if n <= 24 else (1 if n <= 120 else 0))
        units.append(U(MACH, "VerifC19Shipped", weight=n * n, shipped=s["index"], depth=depth))
        if depth < 2:
            skipped.append("%s.%s (%d states): depth %d" % (s["pkg"].replace("github.com/pancsta/asyncmachine-go/", ""), s["name"], n, depth))
    spec["units"] = units
    spec["bounds"]["schemas_discovered"] = len(idx["schemas"])
    spec["bounds"]["dump_errors"] = [e["Pkg"] for e in idx.get("errors", [])]
    spec["outside"] = spec["outside"] + ["history depth below 2 for: " + "; ".join(skipped)]
    return gen


def c19(tier):
    return {"units": [], "prepare": _prepare_shipped,
            "bounds": {"schemas": "every exported package-level machine.Schema variable of the module found by a go/types scan (symgo discover), values dumped "
                       "natively from the current source", "histories": "every sequence of up to `depth` single-state Add1/Remove1 mutations from the empty machine "
                       "(mutated state and kind symbolic): quick depth 2 for schemas <=12 states, 1 up to 60, 0 (well-formedness only) above; thorough 3 for <=8 states, 2 up to 24, 1 up to 120, 0 above (the 148-state example schema)"},
            "outside": ["active sets only reachable by longer histories (the property quantifies over all reachable sets; an inductive argument over symbolic active sets was "
                        "not feasible with this engine, see DESIGN.md A.4)", "handlers (unbound, as the property says)"],
            "assumptions": MACH_ASSUME + ["mixin schemas may reference the documented base states (Start, Ready, Healthcheck, Heartbeat, ErrNetwork, ErrHandlerTimeout, Exception) "
                                          "without defining them (weaker reading of 'references only states it defines')",
                                          "exclusive groups are derived from the schema: two states that list each other in Remove"]}


PROPS["C19"] = c19


def c18(tier):
    pkg = "./pkg/states/pipes"
    units = []
    for flat in (0, 1):
        for local in (0, 1):
            for t in ((1, 2, 3) if tier == "quick" else (1, 2, 3, 4)):
                units.append(U(pkg, "VerifC18Follow", weight=t * t, nconcrete=0, flat=flat, local=local, toggles=t))
            # Err-prefixed target state (the Add pipe carries Exception too), Exception possibly active beforehand
            for t in ((1, 2) if tier == "quick" else (1, 2, 3)):
                units.append(U(pkg, "VerifC18Follow", weight=t * t, nconcrete=0, flat=flat, local=local, toggles=t, err=1))
    units.append(U(pkg, "VerifC18Any", weight=3, steps=3 if tier == "quick" else 4))
    return {"units": units,
            "bounds": {"toggles": "1..3 (thorough 4) alternating activations / deactivations of the piped source state", "variants": "flat / non-flat x local / non-local target",
                       "schedules": "every forked delivery may run before any later toggle or at quiescence, in any order (symbolic choices; replayed natively with gates)",
                       "target": "starts in or out of sync (symbolic); plain target state, and an Err-prefixed one (toggles 1..2, thorough 3) whose "
                       "Add pipe carries Exception, with Exception possibly active beforehand", "bindany": "BindAny's AnyState closure over every history of 3 (thorough 4) source transitions with any "
                       "target set over 3 states"},
            "outside": ["the real target machine's negotiation (the target is an am.Api stub over the states Foo / ErrFoo / Exception that implements the state queries "
                        "Is/Is1/Any1/Not/Not1/IsErr/Has and the Add/Remove entry points; other Api methods are not available to the closures)", "BindServer consumers, Bind* assembly by reflection (Bind, BindMany, BindErr...)",
                        "network targets' RPC"],
            "assumptions": ["real add()/remove() closures of pkg/states/pipes; go statements become tasks whose execution point is chosen by the harness",
                            "natively the chosen schedule is enforced by gating the stub target's EvAdd/EvRemove1"]}


PROPS["C18"] = c18


def _prepare_c15(repo, work, tier, spec, env):
    gen = _prepare_shipped(repo, work, tier, spec, env)
    # the node schemas one level deeper than in C19
    units = []
    for u in spec["units"]:
        for sh in range(8):
            v = dict(u, params=dict(u["params"], depth=2, nshards=8, shard=sh))
            units.append(v)
    # the supervisor's negotiation gates (real handlers on a struct literal)
    units.append(U("./pkg/node", "VerifC15Gates"))
    spec["units"] = units
    return gen


def c15(tier):
    spec = c19(tier)
    spec["only_pkgs"] = ["pkg/node/states"]
    spec["prepare"] = _prepare_c15
    spec["bounds"] = {"schemas": "the shipped node schemas (Supervisor 36 states, Worker 24, Client 21, Bootstrap 9), dumped natively from the current source",
                      "histories": "every sequence of 2 single-state Add1/Remove1 mutations from the empty machine: no two members of a mutually-Removing group "
                                   "(PoolStatus, PoolNormalized, WorkStatus, ...) active, Require closure",
                      "gates": "ForkWorkerEnter, min(), PoolReadyEnter, PoolReadyExit for Min/Max 0..6 and 0..7 tracked / ready workers (readyWorkers overridden by a counter)"}
    spec["outside"] = ["ForkingWorkerEnter (bootstrap address), ErrWorkerState (TTL caches), readyWorkers' own filter and the worker-map writers: not encoded",
                       "event orders across real forks / RPC / TTL caches, Heartbeat and normalisation rounds", "histories longer than 2 mutations"]
    return spec


PROPS["C15"] = c15


def c17(tier):
    pkg = "./pkg/history"
    units = [U(pkg, "VerifC17Find", weight=3, cond=c, nconcrete=2 if c == 0 else 0) for c in range(10)]
    units += [U(pkg, "VerifC17Track", weight=10, mode=m) for m in range(6)]
    # Export / Import round trip on the real machine (pkg/machine)
    units += [U(MACH, "VerifC17Export", weight=6, n=2), U(MACH, "VerifC17Export", weight=6, n=3, schema=0)]
    return {"units": units,
            "bounds": {"db": "0..3 records over 2 tracked states (of a 3-state machine whose index order differs from the tracked order), ticks 0..3", "query": "one state condition "
                       "(Active / Activated / Inactive / Deactivated over either tracked state) or one scalar range (MTimeSum, MachTick), limit 0..2",
                       "tracking": "1..2 transitions (accepted / rejected / check, called A or B, symbolic tick changes), MaxRecords 1..2, Called / Changed allow- and block-lists, TrackRejected"},
            "outside": ["bbolt / badger / gorm backends and backend equivalence", "crash points after Sync", "MTime/MTimeStates ranges (Time.Before/After are documented one way and implemented "
                        "another)", "HTime ranges (wall clock)", "Import of a Serialized built by hand or from another schema (error paths), the MachineRestored handler, JSON encoding of Serialized", "combinations of Called and Changed lists (ambiguous semantics)"],
            "assumptions": ["Memory built as a struct literal around a stub am.Api (StateNames, Time, MachineTick, Index1)", "tracer.TransitionEnd called directly with constructed transitions"]}


PROPS["C17"] = c17


def c09(tier):
    units = [U("./pkg/rpc", "VerifC09Message", weight=2)]
    return {"units": units,
            "bounds": {"message": "one pushed MsgSrvUpdate (direct or wrapped in MsgSrvUpdateMuts) derived from any pair of 2-state snapshots with 64-bit clocks and in-range deltas",
                       "mirror": "in sync with the first snapshot, or drifted on one state by 1..255 ticks (a drift the mod-256 checksum sees)"},
            "outside": ["convergence under concurrent pushes, mutation replies and full syncs in any order (schedules)", "reconnects, dropped connections, push ticker",
                        "NetworkMachine.updateClock's own handler / subscription processing (replaced by a recording stub)", "the Sync RPC itself (replaced by a recording stub)",
                        "mutation results returned through the network machine"],
            "assumptions": ["client machine = real am.New with a one-state schema (HandshakeDone active); ssC set by the harness (package init is not executed by the engine)",
                            "overrides: NetworkMachine.updateClock and Client.Sync -> recording stubs; counterexamples that need them cannot be replayed natively and would be reported "
                            "as inconclusive"]}


PROPS["C09"] = c09
