#!/bin/bash
# usage: seedtest2.sh <outdir> <k> <scratch worktree> <check ids...>
# confirms the seeded change in the scratch worktree, then applies it to /repo, runs the checks, undoes it
export GOFLAGS=-mod=mod GOPROXY=off GOSUMDB=off GOTOOLCHAIN=local PATH=/opt/veriftools/go1.26.8/bin:$PATH
out=$1; k=$2; wt=$3; shift 3
dir=$(python3 -c "import json;print(json.load(open('$out/meta$k.json')).get('dir','pkg/machine'))" 2>/dev/null || echo pkg/machine)
cd $wt && git checkout -q -- . && rm -f $dir/zz_seed_demo_test.go
cp $out/demo${k}_test.go $dir/zz_seed_demo_test.go
echo "== demo on original:"; timeout 900 go test -vet=off -count=1 -run 'SeedDemo|Seed|ZZSeed' ./$dir 2>&1 | tail -2
git apply $out/patch$k.diff || { echo "PATCH DOES NOT APPLY in worktree"; }
echo "== demo with patch:"; timeout 900 go test -vet=off -count=1 -run 'SeedDemo|Seed|ZZSeed' ./$dir 2>&1 | tail -2
rm -f $dir/zz_seed_demo_test.go
echo "== package tests with patch:"; timeout 1500 go test -vet=off -count=1 ./$dir 2>&1 | tail -2
git checkout -q -- .
cd /repo && git apply $out/patch$k.diff || { echo "PATCH DOES NOT APPLY TO /repo"; exit 1; }
for c in "$@"; do
  echo "== check $c with patch:"; (cd /verif && timeout 2400 ./check $c --tier quick 2>&1 | grep -v "^KNOWN-FINDING" | cut -c1-260 | tail -4)
done
git -C /repo checkout -- .
git -C /repo status --short | head -3
