#!/bin/bash
# usage: seedtest4.sh <outdir> <k> <scratch worktree> <check ids...>
# confirms a seeded change in its scratch worktree (demo passes on the base tree, fails with the patch, package tests pass
# with the patch), then runs the quick checks against that patched worktree (VERIF_REPO) and restores it. /repo is never touched.
export GOFLAGS=-mod=mod GOPROXY=off GOSUMDB=off GOTOOLCHAIN=local PATH=/opt/veriftools/go1.26.8/bin:$PATH
out=$1; k=$2; wt=$3; shift 3
dir=$(python3 -c "import json;print(json.load(open('$out/meta$k.json')).get('dir','pkg/machine'))" 2>/dev/null || echo pkg/machine)
cd $wt && git checkout -q -- . && git checkout -q --detach $(git -C /repo rev-parse HEAD) && rm -f $dir/zz_seed_demo_test.go
cp $out/demo${k}_test.go $dir/zz_seed_demo_test.go
echo "== demo on original: $(timeout 900 go test -vet=off -count=1 -run 'SeedDemo' ./$dir 2>&1 | tail -1)"
git apply $out/patch$k.diff || { echo "PATCH DOES NOT APPLY in worktree"; rm -f $dir/zz_seed_demo_test.go; exit 1; }
echo "== demo with patch: $(timeout 900 go test -vet=off -count=1 -run 'SeedDemo' ./$dir 2>&1 | tail -1)"
rm -f $dir/zz_seed_demo_test.go
echo "== package tests with patch: $(timeout 1500 go test -vet=off -count=1 ./$dir 2>&1 | tail -1)"
for c in "$@"; do
  o=$(cd /verif && VERIF_REPO=$wt VERIF_STOP_ON_VIOLATION=1 VERIF_EVIDENCE_SKIP=1 timeout 3000 ./check $c --tier quick 2>&1 | grep -v "^KNOWN-FINDING\|^  ")
  v=$(echo "$o" | grep -c "^VIOLATION")
  echo "RESULT $(basename $out) k=$k check=$c violations_lines=$v $(echo "$o" | grep "^VIOLATION" | head -1 | cut -c1-160) $(echo "$o" | tail -1 | cut -c1-200)"
done
git checkout -q -- .
git status --short | head -3
